"""C18 — drillhole positions follow the survey (structural clauses)."""

from __future__ import annotations

from ..report import RuleResult
from .c17 import cache_rule


def rule_cache(ctx):
    return cache_rule(
        ctx, "C18.CACHE", "C18", ["Drillhole"], 2,
        "every setter/method that stores an input (_collar, _surveys) of the memoised Drillhole.locations resets "
        "_locations on every path on which it stores",
        only_props={"locations"},
    )


_DEPTH_PARAMS = ("depth", "depths", "from_to")  # public keyword parameters of the two entry points (public interface, not locals)
_VALUE_PARAMS = ("values",)
_ENTRY_POINTS = ("validate_depth_data", "validate_interval_data")


def _self_calls(node, sn, name=None):
    """Calls `self.<name>(..)` in node (any name when None)."""
    import ast

    return [c for c in ast.walk(node) if isinstance(c, ast.Call) and isinstance(c.func, ast.Attribute) and isinstance(c.func.value, ast.Name)
            and c.func.value.id == sn and (name is None or c.func.attr == name)]


def _analysis_roots(ctx, K, holds):
    """Functions in whose normalised view the sites of interest are looked at: every member that `holds` a site and, transitively, every
    member calling one of those (a helper's body is expanded in its callers' views, with the callers' arguments bound — that is where the
    provenance of what the helper is given can be decided; the helper is looked at on its own as well)."""
    members = [f for f in K.methods.values()] + [f for pr in K.props.values() for f in (pr.getter, pr.setter) if f is not None and f.cls is K]
    holders = [f for f in members if holds(f.node)]
    out, seen = [], set()
    work = list(holders)
    while work:
        f = work.pop(0)
        if f in seen:
            continue
        seen.add(f)
        out.append(f)
        work += [g for g in members if g is not f and g not in seen and _self_calls(g.node, g.self_name or "self", f.name)]
    return out, holders


def rule_prov(ctx) -> RuleResult:
    import ast

    from ..model import AnalysisError, unparse
    from ._c17_flow import Flow, call_name

    res = RuleResult(
        "C18.PROV",
        "C18",
        "every argument handed to Drillhole.add_vertices in validate_depth_data / validate_interval_data is "
        "self.desurvey(d) with d derived from the depths being added (never from the values, never raw depths as coordinates)",
        floor=3,
    )
    p = ctx.p
    dh = p.cls("Drillhole")

    def holds(node):
        return any(isinstance(c, ast.Call) and call_name(c) == "add_vertices" for c in ast.walk(node))

    roots_fns, holders = _analysis_roots(ctx, dh, holds)
    n_calls = 0
    covered = set()
    feeds: dict = {}  # method name -> its parameters that reach the argument of a desurvey call feeding add_vertices
    # helpers first (fewest callers in the closure last): what a helper does with its parameters is known when its callers are looked at
    order = sorted(roots_fns, key=lambda f: (f.name in _ENTRY_POINTS, f not in holders, f.node.lineno))
    for fn in order:
        v = ctx.view(fn)
        sn = v.self_name or "self"
        calls = _self_calls(v.node, sn, "add_vertices")
        left = [c for c in _self_calls(v.node, sn) if c.func.attr in feeds and c.func.attr != fn.name]
        if not calls and not left:
            continue
        fl = Flow(v.node)
        params = fn.params[1:]
        depth_params = [q for q in params if q in _DEPTH_PARAMS]
        value_params = [q for q in params if q in _VALUE_PARAMS]
        name = fn.prop or fn.name
        if fn.name in _ENTRY_POINTS:
            covered.add(fn.name)

        def is_desurvey(e):
            return isinstance(e, ast.Call) and isinstance(e.func, ast.Attribute) and e.func.attr == "desurvey" and isinstance(e.func.value, ast.Name) \
                and e.func.value.id == sn and len(e.args) + len(e.keywords) == 1

        for c in calls:
            if not fl.nodes_of(c):
                continue
            n_calls += 1
            a = c.args[0] if c.args else (c.keywords[0].value if c.keywords else None)
            where = f"{fn.module.relpath}:{c.lineno}"
            if a is None:
                raise AnalysisError(f"{fn.qualname}:{c.lineno}: add_vertices called without an argument")
            # the coordinates: everything the argument is computed from, desurvey calls taken as opaque leaves
            atoms = list(fl.atoms(a, stop=is_desurvey))
            des = [x for x in atoms if is_desurvey(x)]
            raw = fl.roots(a, stop=is_desurvey) & set(depth_params + value_params)
            if not des or raw:
                res.inst(f"Drillhole.{name}:{c.lineno} add_vertices({unparse(a)[:40]})", ok=False)
                res.find("Drillhole", name, "the argument of add_vertices is not a desurveyed position", where,
                         "vertices created for depth data are not located on the surveyed path")
                continue
            r = set()
            for d in des:
                d_arg = d.args[0] if d.args else d.keywords[0].value
                env = fl.env(fl.nodes_of(d)) if fl.nodes_of(d) else None
                r |= fl.roots(d_arg, env)
            ok = not any(q in r for q in value_params) and (any(q in r for q in depth_params) or not depth_params)
            if not depth_params and not value_params:
                # a helper taking the depths under another name: what it is given is decided at its call sites (expanded in the
                # callers' views; checked below at the calls that could not be expanded)
                ok = True
            if fn.name not in _ENTRY_POINTS:
                feeds.setdefault(fn.name, set()).update(r & set(params))
            res.inst(f"Drillhole.{name}:{c.lineno} add_vertices(self.desurvey(..)) <- {sorted(r & set(params))}", nontrivial=True, ok=ok)
            if not ok:
                res.find("Drillhole", name, f"desurveyed depths derive from {sorted(r & set(params))}", where,
                         "the positions of the new vertices are computed from something else than the depths being added")
        # calls to a helper that could not be expanded in this view: the arguments bound to the parameters it desurveys
        for c in left:
            if not fl.nodes_of(c):
                continue
            hp = dh.methods[c.func.attr].params[1:] if c.func.attr in dh.methods else []
            bound = dict(zip(hp, c.args))
            bound.update({k.arg: k.value for k in c.keywords if k.arg})
            r = set()
            for q in feeds[c.func.attr]:
                if q in bound:
                    r |= fl.roots(bound[q])
            if not depth_params and not value_params:
                feeds.setdefault(fn.name, set()).update(r & set(params))
                continue
            n_calls += 1
            ok = not any(q in r for q in value_params) and any(q in r for q in depth_params)
            res.inst(f"Drillhole.{name}:{c.lineno} {c.func.attr}(..) desurveys <- {sorted(r & set(params))}", nontrivial=True, ok=ok)
            if not ok:
                res.find("Drillhole", name, f"desurveyed depths derive from {sorted(r & set(params))}", f"{fn.module.relpath}:{c.lineno}",
                         "the positions of the new vertices are computed from something else than the depths being added")
    # an entry point that hands the work to another (public) method of the class is covered through that method
    analysed = {f.name for f in roots_fns}
    for e in _ENTRY_POINTS:
        seen, work = set(), [e]
        while work and e not in covered:
            m = work.pop()
            if m in seen or m not in dh.methods:
                continue
            seen.add(m)
            if m != e and m in analysed:
                covered.add(e)
            work += [c.func.attr for c in _self_calls(dh.methods[m].node, dh.methods[m].self_name or "self")]
    missing = [e for e in _ENTRY_POINTS if e not in covered]
    if missing or n_calls < 2:
        raise AnalysisError(f"C18.PROV: no add_vertices call site reached from {missing or _ENTRY_POINTS} ({n_calls} sites found)")
    # the same depths feed the DEPTH data (in the entry point, or in the method of the class it hands the work to)
    from ._c17_flow import key_of

    seen, work, n_stores, bad_stores = set(), ["validate_depth_data"], 0, 0
    while work:
        m = work.pop(0)
        if m in seen or m not in dh.methods:
            continue
        seen.add(m)
        vd = ctx.view(dh.methods[m])
        sn = vd.self_name or "self"
        work += [c.func.attr for c in _self_calls(vd.node, sn)]
        stores = []
        for n in ast.walk(vd.node):
            if isinstance(n, (ast.Assign, ast.AnnAssign)) and n.value is not None:
                for t in (n.targets if isinstance(n, ast.Assign) else [n.target]):
                    if key_of(t) in (f"{sn}.depths", f"{sn}.depths.values"):
                        stores.append(n)
        if not stores:
            continue
        fl = Flow(vd.node)
        dparams = [q for q in vd.params[1:] if q in _DEPTH_PARAMS]
        vparams = [q for q in vd.params[1:] if q in _VALUE_PARAMS]
        for n in stores:
            if not fl.nodes_of(n.value):
                continue
            n_stores += 1
            r = fl.roots(n.value)
            if (dparams and not (r & set(dparams))) or (r & set(vparams)):
                bad_stores += 1
    ok = n_stores > 0 and bad_stores == 0
    res.inst("validate_depth_data: the DEPTH data are extended with the same `depth` array", ok=ok)
    if not ok:
        res.find("Drillhole", "validate_depth_data", "DEPTH data not extended with the added depths", dh.methods["validate_depth_data"].where,
                 "values are attached to vertices whose DEPTH is something else")
    return res


def _candidates(ctx, holds):
    """Functions of the package whose normalised view may contain a site: those holding one and, transitively, their callers (a helper's
    body is expanded in its callers' views); a private helper that has callers is only looked at through them."""
    import ast

    p = ctx.p
    fns = list(p.all_functions())
    holders = [f for f in fns if holds(f.node)]
    out, seen = [], set()
    work = list(holders)
    while work:
        f = work.pop(0)
        if id(f) in seen:
            continue
        seen.add(id(f))
        private = f.name.startswith("_") and not f.name.startswith("__")
        callers = []
        for g in fns:
            if g is f or (private and ((f.cls is None and g.module is not f.module) or (f.cls is not None and g.cls is None))):
                continue
            for c in ast.walk(g.node):
                if isinstance(c, ast.Call) and ((isinstance(c.func, ast.Name) and c.func.id == f.name) or (isinstance(c.func, ast.Attribute) and c.func.attr == f.name)):
                    callers.append(g)
                    break
        work += callers
        if not (private and callers):
            out.append(f)
    return out


def _resolve_callee(ctx, K, fn, call):
    """(FuncInfo, drops_receiver) for self.m(..) / cls.m(..) / Class.m(..) / f(..) resolvable in the package, else None."""
    import ast

    f = call.func
    if isinstance(f, ast.Attribute) and isinstance(f.value, ast.Name):
        owner = None
        if K is not None and f.value.id in ("self", "cls", fn.self_name or ""):
            owner = K
        else:
            r = ctx.p.resolve_name(fn.module, f.value.id)
            if r and r[0] == "class":
                owner = r[1]
            elif r and r[0] == "module" and f.attr in r[1].functions:
                return r[1].functions[f.attr], False
        if owner is not None:
            m = owner.lookup(f.attr)
            if m and m[1] == "method":
                return m[2], m[2].kind in ("method", "classmethod") and (owner is K and f.value.id in ("self", "cls", fn.self_name or "") or m[2].kind == "classmethod")
    elif isinstance(f, ast.Name):
        r = ctx.p.resolve_name(fn.module, f.id)
        if r and r[0] == "func":
            return r[1], False
    return None


def _tolerance_sites(ctx, K, fn, tol_params, depth=0, seen=None):
    """Ordering comparisons against a value computed from the tolerance alone, in the normalised view of fn and — where the tolerance
    is handed to a function of the package whose body could not be expanded in place (a generator, a helper overridden in a subclass) —
    in that function, with the parameter the tolerance is bound to: [(view, flow, parent map, compare, distance side, operator)]."""
    import ast

    from ._c17_flow import Flow

    seen = seen if seen is not None else set()
    if depth > 3 or (id(fn.node), tuple(tol_params)) in seen or not tol_params:
        return []
    seen.add((id(fn.node), tuple(tol_params)))
    v = ctx.view(fn)
    fl = Flow(v.node)
    parents = {}
    for n in ast.walk(v.node):
        for ch in ast.iter_child_nodes(n):
            parents[id(ch)] = n

    def from_tol(e):
        """e is computed from the tolerance parameter alone (the tolerance, possibly scaled / read into a local)"""
        r = fl.roots(e) if fl.nodes_of(e) else set()
        return bool(r) and r <= set(tol_params)

    sites = []
    for c in ast.walk(v.node):
        if isinstance(c, ast.Compare) and len(c.ops) == 1 and isinstance(c.ops[0], (ast.Lt, ast.LtE, ast.Gt, ast.GtE)) and fl.nodes_of(c):
            l, r = c.left, c.comparators[0]
            if from_tol(r) and not from_tol(l):
                sites.append((v, fl, parents, c, l, c.ops[0]))
            elif from_tol(l) and not from_tol(r):
                flip = {ast.Lt: ast.Gt, ast.LtE: ast.GtE, ast.Gt: ast.Lt, ast.GtE: ast.LtE}.get(type(c.ops[0]))
                sites.append((v, fl, parents, c, r, flip() if flip else c.ops[0]))
        elif isinstance(c, ast.Call) and fl.nodes_of(c):
            given = [(i, a) for i, a in enumerate(c.args) if from_tol(a)] + [(k.arg, k.value) for k in c.keywords if k.arg and from_tol(k.value)]
            if not given:
                continue
            rc = _resolve_callee(ctx, fn.cls if fn.cls is not None else K, fn, c)
            if rc is None or rc[0].node is fn.node:
                continue
            callee, drop = rc
            ps = callee.params[1:] if drop else callee.params
            kw = {x.arg for x in callee.node.args.kwonlyargs}
            bound = [ps[i] if isinstance(i, int) and i < len(ps) else i for i, _a in given]
            bound = [b for b in bound if isinstance(b, str) and (b in ps or b in kw)]
            sites += _tolerance_sites(ctx, callee.cls if callee.cls is not None else K, callee, bound, depth + 1, seen)
    return sites


def rule_match(ctx) -> RuleResult:
    import ast

    from ..model import AnalysisError
    from ._c17_flow import Flow, call_name, key_of

    res = RuleResult(
        "C18.MATCH",
        "C18",
        "(a) a function that searches positions in an argsort-permuted copy of an array (np.searchsorted(a[perm], ..)) maps "
        "the positions it returns back through that permutation (perm[...]): returned indices refer to the caller's array, "
        "not to the sorted copy; (b) an added interval is matched to an existing one only when BOTH its from and its to "
        "coincide: the collocation test reduces over the (from, to) axis with an all-components reduction "
        "(norm / max / all), never min / any",
        floor=2,
    )
    p = ctx.p
    n_a = 0

    def holds(node):
        return any(isinstance(c, ast.Call) and call_name(c) == "searchsorted" for c in ast.walk(node))

    for fn in _candidates(ctx, holds):
        v = ctx.view(fn)
        fl = Flow(v.node)

        def is_module(e):
            r = p.resolve_name(v.module, e.id) if isinstance(e, ast.Name) else None
            return bool(r) and r[0] in ("external", "module")

        def record_field(e, env):
            """e = R.name / R[i] with R bound to a tuple display or to a record built by a class of the package whose fields are its
            annotated names in order (NamedTuple, dataclass): (the expression that field was built from, its environment), else None."""
            base = e.value
            if key_of(base) is None:
                return None
            ds, entry = fl.reaching(base, env)
            if entry or len(ds) != 1:
                return None
            b, benv = fl.resolve(base, env)
            if isinstance(e, ast.Subscript):
                if isinstance(b, (ast.Tuple, ast.List)) and isinstance(e.slice, ast.Constant) and isinstance(e.slice.value, int) and -len(b.elts) <= e.slice.value < len(b.elts):
                    return b.elts[e.slice.value], benv
                idx = e.slice.value if isinstance(e.slice, ast.Constant) and isinstance(e.slice.value, int) else None
            else:
                idx = None
            if not isinstance(b, ast.Call) or any(isinstance(a, ast.Starred) for a in b.args):
                return None
            r = p.resolve_name(v.module, b.func.id) if isinstance(b.func, ast.Name) else None
            if not r or r[0] != "class" or r[1].node is None or "__init__" in r[1].methods:
                return None
            fields = [st.target.id for st in r[1].node.body if isinstance(st, ast.AnnAssign) and isinstance(st.target, ast.Name)]
            name = e.attr if isinstance(e, ast.Attribute) else (fields[idx] if idx is not None and 0 <= idx < len(fields) else None)
            if name not in fields:
                return None
            i = fields.index(name)
            if i < len(b.args):
                return b.args[i], benv
            kw = next((k.value for k in b.keywords if k.arg == name), None)
            return (kw, benv) if kw is not None else None

        def is_perm(e, env=None, depth=0):
            """e evaluates to the result of an argsort (np.argsort(a) / a.argsort()), possibly through locals."""
            if depth > 6:
                return False
            if isinstance(e, ast.Call):
                if call_name(e) == "argsort":
                    return True
                if call_name(e) in ("asarray", "array", "astype", "copy") and (e.args or isinstance(e.func, ast.Attribute)):
                    inner = e.func.value if isinstance(e.func, ast.Attribute) and not is_module(e.func.value) else (e.args[0] if e.args else None)
                    return inner is not None and is_perm(inner, env, depth + 1)
                return False
            if isinstance(e, (ast.Attribute, ast.Subscript)):
                rf = record_field(e, env if env is not None else (fl.env(fl.nodes_of(e)) if fl.nodes_of(e) else {}))
                if rf is not None:
                    return is_perm(rf[0], rf[1], depth + 1)
            if key_of(e) is not None:
                ds, entry = fl.reaching(e, env if env is not None else (fl.env(fl.nodes_of(e)) if fl.nodes_of(e) else {}))
                strong = [d for d in ds if d.strong and d.value is not None]
                if entry or not strong:
                    return False
                for d in strong:
                    val, venv = fl.value_of(d)
                    if d.index is not None and val is d.value:
                        return False  # an element of something that is not a tuple display: unknown
                    if isinstance(d.stmt, (ast.For, ast.AsyncFor, ast.With, ast.AsyncWith)) or not is_perm(val, venv, depth + 1):
                        return False
                return True
            return False

        def env_of(x, default):
            return fl.env(fl.nodes_of(x)) if fl.nodes_of(x) else default

        def permuted(x, env):
            """x is `A[perm]` / np.take(A, perm) / A.take(perm)"""
            if isinstance(x, ast.Subscript):
                return is_perm(x.slice, env)
            if isinstance(x, ast.Call) and call_name(x) == "take":
                args = list(x.args) + [k.value for k in x.keywords if k.arg == "indices"]
                return any(is_perm(a, env) for a in args)
            return False

        def through_perm(x, env):
            """x is `perm[...]` / np.take(perm, ..) / perm.take(..)"""
            if isinstance(x, ast.Subscript):
                return is_perm(x.value, env)
            if isinstance(x, ast.Call) and call_name(x) == "take":
                if isinstance(x.func, ast.Attribute) and not is_module(x.func.value):
                    return is_perm(x.func.value, env)
                return bool(x.args) and is_perm(x.args[0], env)
            return False

        def stop_at_perm(e):
            return key_of(e) is not None and is_perm(e)

        calls = [c for c in ast.walk(v.node) if isinstance(c, ast.Call) and call_name(c) == "searchsorted" and fl.nodes_of(c)]
        for c in calls:
            if isinstance(c.func, ast.Attribute) and not is_module(c.func.value):
                hay = c.func.value  # a_sorted.searchsorted(v)
            else:
                hay = c.args[0] if c.args else next((k.value for k in c.keywords if k.arg == "a"), None)
            if hay is None:
                continue
            # is the haystack a sorted / argsort-permuted copy?
            is_copy = False
            for e in fl.cone(hay):
                env = env_of(e, {})
                for x in ast.walk(e):
                    if permuted(x, env) or (isinstance(x, ast.Call) and call_name(x) in ("sort", "sorted")):
                        is_copy = True
            if not is_copy:
                continue
            n_a += 1
            rets = [r for r in ast.walk(v.node) if isinstance(r, ast.Return) and r.value is not None and fl.nodes_of(r.value)]

            def mapped_back(r):
                for e in fl.cone(r.value, stop=stop_at_perm):
                    env = env_of(e, {})
                    for x in ast.walk(e):
                        if through_perm(x, env):
                            return True
                return False

            def hands_out_perm(r):
                """the permutation itself is part of what is returned (`return perm, positions` / a record holding both): the positions
                are returned AS positions in the sorted copy, together with what maps them back — decided where the caller uses them"""
                val, venv = fl.resolve(r.value)
                return any(isinstance(x, (ast.Name, ast.Attribute)) and key_of(x) is not None and is_perm(x, venv) for x in ast.walk(val))

            ok = bool(rets) and all(mapped_back(r) or hands_out_perm(r) for r in rets)
            res.inst(f"{fn.qualname}:{c.lineno} searchsorted in a permuted copy; returned indices mapped back through the permutation", nontrivial=True, ok=ok)
            if not ok:
                res.find(fn.cls.name if fn.cls else fn.module.short, fn.name, "positions found in the sorted copy are returned without mapping back through the argsort permutation",
                         f"{fn.module.relpath}:{c.lineno}",
                         "the returned indices address the sorted copy: for an input that is not already sorted, matches point at other elements "
                         "(depth data are merged onto the wrong vertices)")
    if n_a == 0:
        raise AnalysisError("C18.MATCH: no searchsorted-in-permuted-copy site found (match_values moved?)")
    # (b)
    dh = p.cls("Drillhole")
    vi0 = dh.methods.get("validate_interval_data")
    if vi0 is None:
        raise AnalysisError("anchor Drillhole.validate_interval_data not found")
    tol0 = [q for q in vi0.params[1:] if q not in _DEPTH_PARAMS + _VALUE_PARAMS]  # the tolerance parameter(s) of the entry point
    sites = _tolerance_sites(ctx, dh, vi0, tol0)
    if not sites:
        raise AnalysisError("validate_interval_data: comparison against collocation_distance not found")
    ALL_RED = {"norm", "max", "amax", "all", "alltrue"}
    ANY_RED = {"min", "amin", "any", "sometrue"}
    for vfn, fl, parents, c, dist, op in sites:
        kind = None
        for e in fl.cone(dist):
            for x in ast.walk(e):
                if isinstance(x, ast.Call):
                    nm = call_name(x)
                    if nm in ALL_RED:
                        kind = kind or "all"
                    if nm in ANY_RED:
                        kind = "any"
        if kind is None:
            # no reduction inside the distance: the comparison is element-wise and reduced afterwards (np.all(|d| < tol, axis=1)),
            # possibly after being read into a local
            def around(node, depth=0):
                cur = node
                while id(cur) in parents:
                    cur = parents[id(cur)]
                    if isinstance(cur, ast.Call):
                        nm = call_name(cur)
                        if nm in ("all", "alltrue"):
                            return "all"
                        if nm in ("any", "sometrue"):
                            return "any"
                    if isinstance(cur, ast.stmt):
                        break
                if depth < 4:
                    kinds = set()
                    for d in fl.defs:
                        if d.strong and d.value is not None and any(x is node for x in ast.walk(d.value)) and isinstance(d.stmt, (ast.Assign, ast.AnnAssign, ast.NamedExpr)):
                            for u in fl.uses_of(d):
                                kinds.add(around(u, depth + 1))
                    kinds.discard(None)
                    if kinds:
                        return "any" if "any" in kinds else "all"
                return None

            kind = around(c)
        if kind is None:
            raise AnalysisError(f"validate_interval_data ({vfn.qualname}:{c.lineno}): reduction over the (from, to) axis not recognised")
        ok = kind == "all" and isinstance(op, (ast.Lt, ast.LtE))
        res.inst(f"validate_interval_data ({vfn.name}:{c.lineno}) interval match = all-components distance < tolerance", nontrivial=True, ok=ok)
        if not ok:
            res.find("Drillhole", "validate_interval_data", "an interval matches when ANY endpoint coincides",
                     f"{vfn.module.relpath}:{c.lineno}",
                     "an added interval sharing only its from (or only its to) with an existing one is treated as that interval: its values are "
                     "attached to the wrong cell and no vertices are created for its other endpoint")
    return res


def _const_facts(fn_node, given=None):
    """{'const:<name>': value} for locals bound exactly once, to a constant (a parameter bound to the literal argument of an expanded
    call, a default) — what kinds.reach needs to drop the branches such a constant rules out."""
    import ast

    from ..normalize import single_assignments

    facts = dict(given or {})
    sa = single_assignments(fn_node)
    for _round in range(4):  # through plain aliases of a constant local (a parameter bound to a parameter of the enclosing expansion)
        for k, v in sa.items():
            if ("const:" + k) in facts:
                continue
            if isinstance(v, ast.Constant):
                facts["const:" + k] = v.value
            elif isinstance(v, ast.Name) and ("const:" + v.id) in facts and (v.id in sa or ("const:" + v.id) in (given or {})):
                facts["const:" + k] = facts["const:" + v.id]
    return facts


def _stored_overwrites(ctx, K, fn, is_stored, new_names, facts0=None, depth=0, seen=None, ctxkey=""):
    """Statements `A[i] = v` / `A[i] op= v` on a feasible path of fn (normalised view; branches ruled out by constant modes dropped)
    where A is one of the stored arrays and v is computed from the values being added — looked for in fn and in the package functions
    that are handed a stored array and added values but could not be expanded in place.  [(view, statement)]"""
    import ast

    from ..kinds import reach
    from ._c17_flow import Flow, key_of

    seen = seen if seen is not None else set()
    if depth > 2 or (id(fn.node), ctxkey) in seen:
        return []
    seen.add((id(fn.node), ctxkey))
    v = ctx.view(fn)
    fl = Flow(v.node)
    rebound = {d.key for d in fl.defs if not d.scoped}
    facts = _const_facts(v.node, {k: x for k, x in (facts0 or {}).items() if k.split(":", 1)[1] not in rebound})
    feasible = reach(fl.g, [fl.g.entry], var="_", facts=facts)
    hits = []

    def added(e, env=None):
        return bool(fl.roots(e, env) & set(new_names))

    def denoted(e, env, depth=0):
        """functions of the package a callee expression may stand for: a local bound to one, a conditional expression between several
        (the branch a constant mode rules out dropped), an entry of a literal dispatch table"""
        from ..kinds import tv

        if depth > 4:
            return []
        if isinstance(e, ast.Name):
            r = ctx.p.resolve_name(v.module, e.id)
            if r and r[0] == "func":
                return [r[1]]
            ds, _entry = fl.reaching(e, env)
            if not ds:
                # a name of another module (the body of a function of that module expanded here still names its neighbours)
                return [f for m in ctx.p.modules.values() if m.in_scope for nm, f in m.functions.items() if nm == e.id]
            out = []
            for d in ds:
                if d.strong and d.value is not None:
                    val, venv = fl.value_of(d)
                    out += denoted(val, venv, depth + 1)
            return out
        if isinstance(e, ast.IfExp):
            t = tv(e.test, "_", facts)
            return (denoted(e.body, env, depth + 1) if t is not False else []) + (denoted(e.orelse, env, depth + 1) if t is not True else [])
        if isinstance(e, ast.Subscript) or (isinstance(e, ast.Call) and isinstance(e.func, ast.Attribute) and e.func.attr == "get" and e.args):
            table = e.value if isinstance(e, ast.Subscript) else e.func.value
            key = e.slice if isinstance(e, ast.Subscript) else e.args[0]
            table = fl.resolve(table, env)[0] if key_of(table) is not None else table
            if isinstance(table, ast.Dict):
                kv = facts.get("const:" + key.id) if isinstance(key, ast.Name) else (key.value if isinstance(key, ast.Constant) else None)
                vals = [x for k, x in zip(table.keys, table.values) if kv is None or not isinstance(k, ast.Constant) or k.value == kv]
                if isinstance(e, ast.Call) and len(e.args) > 1 and (kv is None or not any(isinstance(k, ast.Constant) and k.value == kv for k in table.keys)):
                    vals.append(e.args[1])
                return [f for x in vals for f in denoted(x, env, depth + 1)]
        return []

    def via_callee(c, callee, drop, env):
        ps = callee.params[1:] if drop else callee.params
        bound = dict(zip(ps, c.args))
        bound.update({k.arg: k.value for k in c.keywords if k.arg})
        stored_ps = {q for q, a in bound.items() if key_of(a) is not None and is_stored(*fl.resolve(a, env)[:1], v, fl, fl.resolve(a, env)[1])}
        new_ps = {q for q, a in bound.items() if q not in stored_ps and added(a, env)}
        if not stored_ps or not new_ps:
            return []
        a = callee.node.args
        names = [x.arg for x in a.posonlyargs + a.args]
        defaults = dict(zip(names[len(names) - len(a.defaults):], a.defaults))
        defaults.update({k.arg: d for k, d in zip(a.kwonlyargs, a.kw_defaults) if d is not None})
        cf = {}
        for q in set(names) | {k.arg for k in a.kwonlyargs}:
            val = bound.get(q, defaults.get(q))
            if val is not None and key_of(val) is not None:
                val = fl.resolve(val, env)[0]
            if isinstance(val, ast.Constant):
                cf["const:" + q] = val.value
        return [(v, c) for _x in _stored_overwrites(
            ctx, callee.cls if callee.cls is not None else K, callee,
            lambda e, _v, _fl=None, _env=None, sp=stored_ps: isinstance(e, ast.Name) and e.id in sp, new_ps, cf, depth + 1, seen,
            f"{sorted(stored_ps)}|{sorted(new_ps)}|{sorted(cf.items())}")][:1]

    for node in feasible:
        st = node.ast
        if node.kind != "stmt" or st is None or isinstance(st, list):
            continue
        env = fl.env([node])
        if isinstance(st, (ast.Assign, ast.AugAssign)) and st.value is not None:
            for t in (st.targets if isinstance(st, ast.Assign) else [st.target]):
                for e in (t.elts if isinstance(t, (ast.Tuple, ast.List)) else [t]):
                    b = e
                    while isinstance(b, ast.Subscript):
                        b = b.value
                    if b is e or key_of(b) is None:
                        continue
                    rb, renv = fl.resolve(b, env)
                    if is_stored(rb, v, fl, renv) and added(st.value, env):
                        hits.append((v, st))
        for c in [x for x in ast.walk(st) if isinstance(x, ast.Call)]:
            rc = _resolve_callee(ctx, K, v, c)
            targets = [rc] if rc is not None else [(f, False) for f in denoted(c.func, env)]
            for callee, drop in targets:
                if callee.node is fn.node:
                    continue
                hits += via_callee(c, callee, drop, env)
    return hits
def rule_keep(ctx) -> RuleResult:
    import ast

    from ..model import AnalysisError
    from ._c17_flow import key_of

    res = RuleResult(
        "C18.KEEP",
        "C18",
        "while depth / interval data are merged onto a hole, the depths already stored (DEPTH, FROM, TO values) are never overwritten "
        "with the depths being added: a vertex stays labelled with the depth it was placed at (a collocated addition re-uses the "
        "vertex and its stored depth)",
        floor=2,
    )
    dh = ctx.p.cls("Drillhole")
    stored_props = ("depths", "from_", "to_")
    for name in _ENTRY_POINTS:
        fn = dh.methods.get(name)
        if fn is None:
            raise AnalysisError(f"anchor Drillhole.{name} not found")
        sn = fn.self_name or "self"
        new_names = [q for q in fn.params[1:] if q in _DEPTH_PARAMS]

        def is_stored(e, _v, _fl=None, _env=None, sn=sn):
            k = key_of(e)
            return k is not None and any(k == f"{sn}.{a}" or k.startswith(f"{sn}.{a}.") for a in stored_props)

        hits = _stored_overwrites(ctx, dh, fn, is_stored, new_names)
        res.inst(f"Drillhole.{name}: no element of the stored depths is assigned from `{', '.join(new_names)}`", nontrivial=True, ok=not hits)
        for v, st in hits[:1]:
            # a statement of an expanded helper keeps the helper's own line: point at the entry point then
            line = st.lineno if fn.node.lineno <= st.lineno <= fn.node.end_lineno else fn.node.lineno
            res.find("Drillhole", name, "stored depths are overwritten with the depths being added", f"{fn.module.relpath}:{line}",
                     "the depth recorded for an existing vertex is replaced by the collocated new depth while the vertex stays where it is: "
                     "the vertex no longer sits at the position of its depth, and values added earlier move to another depth (creeping with every addition)")
    return res


_TRIG = {"sin", "cos", "tan", "sincos"}


def rule_dev(ctx) -> RuleResult:
    import ast

    from ..model import AnalysisError
    from ._c17_flow import Flow, call_name, key_of

    res = RuleResult(
        "C18.DEV",
        "C18",
        "within a survey leg the hole advances along the mean of the two station directions: every evaluation of a direction "
        "(a trigonometric function, or a function of the package that evaluates one) in compute_deviation takes the angles of one "
        "station; the angles of the two stations of a leg are never combined before the direction is evaluated",
        floor=1,
    )
    p = ctx.p
    cands = [f for f in p.all_functions() if f.name == "compute_deviation" and f.cls is None]
    if len(cands) != 1:
        raise AnalysisError(f"anchor compute_deviation resolves to {len(cands)} functions")
    fn0 = cands[0]
    if not fn0.params:
        raise AnalysisError("compute_deviation takes no survey table")
    memo = {}

    def evaluates_direction(f, depth=0):
        """the function (of the package) calls a trigonometric function, directly or through what it calls"""
        if id(f.node) in memo:
            return memo[id(f.node)]
        memo[id(f.node)] = False
        out = False
        for c in ast.walk(f.node):
            if isinstance(c, ast.Call):
                if call_name(c) in _TRIG:
                    out = True
                elif depth < 2 and isinstance(c.func, ast.Name):
                    r = p.resolve_name(f.module, c.func.id)
                    if r and r[0] == "func" and evaluates_direction(r[1], depth + 1):
                        out = True
        memo[id(f.node)] = out
        return out

    seen = set()

    def scan(fn, table, fparams, depth=0):
        """fn receives the survey table as parameter `table`; fparams: parameter -> functions of the package it may stand for"""
        if depth > 3 or (id(fn.node), table) in seen:
            return
        seen.add((id(fn.node), table))
        v = ctx.view(fn)
        fl = Flow(v.node)

        def functions_of(e):
            """package functions the expression may denote: the function itself, a local / loop variable running over a list of
            functions, a parameter the caller bound to functions"""
            out = set()
            for x in fl.atoms(e):
                if isinstance(x, ast.Name):
                    r = p.resolve_name(v.module, x.id)
                    if r and r[0] == "func":
                        out.add(r[1])
            for q in fl.roots(e) if fl.nodes_of(e) else ():
                out |= fparams.get(q, set())
            return out

        def is_direction_call(c):
            if call_name(c) in _TRIG:
                return True
            return isinstance(c.func, ast.Name) and any(f.node is not fn.node and evaluates_direction(f) for f in functions_of(c.func))

        def station_ranges(e):
            """row ranges of the survey table (other than all rows) the expression is computed from"""
            out = set()
            for x in fl.atoms(e):
                if isinstance(x, ast.Subscript):
                    b, _env = fl.resolve(x.value) if fl.nodes_of(x.value) else (x.value, None)
                    if not (isinstance(b, ast.Name) and b.id == table):
                        continue
                    rows = x.slice.elts[0] if isinstance(x.slice, ast.Tuple) and x.slice.elts else x.slice
                    if isinstance(rows, ast.Slice) and (rows.lower is not None or rows.upper is not None or rows.step is not None):
                        out.add(ast.unparse(rows))
                    elif not isinstance(rows, ast.Slice) and not isinstance(x.slice, ast.Tuple):
                        out.add(ast.unparse(rows))
            return out

        for c in ast.walk(v.node):
            if not (isinstance(c, ast.Call) and fl.nodes_of(c)):
                continue
            args = list(c.args) + [k.value for k in c.keywords]
            if is_direction_call(c):
                for a in args:
                    rng = station_ranges(a)
                    if not rng and not (fl.roots(a) & {table}):
                        continue
                    ok = len(rng) <= 1
                    res.inst(f"{fn.name}:{c.lineno} direction evaluated at the angles of one station ({sorted(rng)})", nontrivial=True, ok=ok)
                    if not ok:
                        res.find(fn0.module.short, fn0.name, "a direction is evaluated at angles combined from two stations", f"{fn.module.relpath}:{c.lineno}",
                                 "the direction of the averaged angles is not the average of the two station directions: the path is wrong on every curved "
                                 "leg and points the opposite way when the azimuth wraps through North (350 deg -> 10 deg gives 180 deg)")
                continue
            # the whole table handed on to a function of the package that could not be expanded here: looked at there
            rc = _resolve_callee(ctx, fn.cls, v, c)
            if rc is None or rc[0].node is fn.node:
                continue
            callee, drop = rc
            ps = callee.params[1:] if drop else callee.params
            bound = dict(zip(ps, c.args))
            bound.update({k.arg: k.value for k in c.keywords if k.arg})
            for q, a in bound.items():
                b = fl.resolve(a)[0] if fl.nodes_of(a) and key_of(a) is not None else a
                if isinstance(b, ast.Name) and b.id == table:
                    scan(callee, q, {r: functions_of(x) for r, x in bound.items() if r != q and fl.nodes_of(x)}, depth + 1)

    scan(fn0, fn0.params[0], {})
    return res


_ARRAY_MAKERS = {"array", "asarray", "asanyarray", "full", "empty", "zeros", "ones", "repeat", "tile", "chararray"}
_LIKE_MAKERS = {"full_like", "empty_like", "zeros_like", "ones_like"}


def rule_width(ctx) -> RuleResult:
    import ast

    from ..model import AnalysisError
    from ._c17_flow import call_name, key_of

    res = RuleResult(
        "C18.WIDTH",
        "C18",
        "text values added for depths / intervals are never stored item by item into a string array of fixed width: an array built from "
        "string literals that receives elements of the incoming values takes its dtype from those values (dtype=values.dtype, "
        "astype(values.dtype), a *_like(values) constructor) or is an object array — otherwise every stored string is cut to the "
        "width of the literal",
        floor=2,
    )
    dh = ctx.p.cls("Drillhole")
    for name in _ENTRY_POINTS:
        fn = dh.methods.get(name)
        if fn is None:
            raise AnalysisError(f"anchor Drillhole.{name} not found")
        value_names = [q for q in fn.params[1:] if q in _VALUE_PARAMS]

        def elastic(dt, fl, env):
            """the dtype expression follows the incoming values, or is the object dtype"""
            if dt is None:
                return False
            if fl.roots(dt, env) & set(value_names):
                return True
            txt = ast.unparse(fl.resolve(dt, env)[0] if key_of(dt) is not None else dt)
            return txt in ("object", "np.object_", "numpy.object_", "'O'", "'object'")

        def fixed_text(val, fl, env, depth=0):
            """val builds an array of strings whose width is that of string literals"""
            if depth > 4:
                return False
            if key_of(val) is not None:
                ds, entry = fl.reaching(val, env)
                return any(d.strong and d.value is not None and d.index is None and fixed_text(d.value, fl, fl.env([d.node]), depth + 1) for d in ds)
            if not isinstance(val, ast.Call):
                return False
            nm = call_name(val)
            if nm in ("astype", "view") and isinstance(val.func, ast.Attribute):
                if val.args and elastic(val.args[0], fl, env):
                    return False
                return fixed_text(val.func.value, fl, env, depth + 1)
            if nm in ("copy",) and isinstance(val.func, ast.Attribute) and not val.args:
                return fixed_text(val.func.value, fl, env, depth + 1)
            dt = next((k.value for k in val.keywords if k.arg == "dtype"), None)
            if nm in _LIKE_MAKERS:
                if dt is None and val.args and (fl.roots(val.args[0], env) & set(value_names)):
                    return False
            elif nm not in _ARRAY_MAKERS:
                return False
            if elastic(dt, fl, env):
                return False
            data_args = list(val.args) + [k.value for k in val.keywords if k.arg != "dtype"]
            has_text = any(isinstance(x, ast.Constant) and isinstance(x.value, str) for a in data_args for x in fl.atoms(a, env))
            if dt is not None and not has_text:
                txt = ast.unparse(fl.resolve(dt, env)[0] if key_of(dt) is not None else dt)
                has_text = txt in ("str", "np.str_", "'U'", "'S'") or txt.strip("'\"").lstrip("<>|=")[:1] in ("U", "S")
            if has_text:
                built.append(val)
            return has_text

        built: list = []
        hits = _stored_overwrites(ctx, dh, fn, lambda e, _v, fl=None, env=None: fl is not None and fixed_text(e, fl, env), value_names)
        res.inst(f"Drillhole.{name}: no element of `{', '.join(value_names)}` is stored into a fixed-width string array", nontrivial=True, ok=not hits)
        for v, st in hits[:1]:
            at = [b.lineno for b in built if fn.node.lineno <= b.lineno <= fn.node.end_lineno]
            res.find("Drillhole", name, "text values are stored item by item into a fixed-width string array", f"{fn.module.relpath}:{at[-1] if at else fn.node.lineno}",
                     "the array receiving the values was built from string literals without a dtype taken from the values: every text value "
                     "merged into it is truncated to the literal's width ('granite' -> 'g')")
    return res


def _array_valued_data_classes(p):
    """Concrete Data classes (own primitive type other than the abstract placeholder) whose `values` accept a numpy array — decided from
    the isinstance tests of their `values` getter / setter: what a `type` entry of add_data can create with one value per vertex."""
    import ast

    out = []
    data = p.cls("Data", "data.data")
    for K in p.subclasses(data, strict=True):
        if K.synthetic:
            continue
        pt = K.lookup("primitive_type")
        if not pt or pt[1] != "method":
            continue
        rets = [r.value for r in ast.walk(pt[2].node) if isinstance(r, ast.Return) and r.value is not None]
        if not rets or any(isinstance(r, ast.Attribute) and r.attr == "INVALID" for r in rets):
            continue
        m = K.lookup("values")
        if not m or m[1] != "prop":
            continue
        accepts = False
        for f in (m[2].getter, m[2].setter):
            if f is None:
                continue
            for c in ast.walk(f.node):
                if isinstance(c, ast.Call) and isinstance(c.func, ast.Name) and c.func.id == "isinstance" and len(c.args) == 2 \
                        and any(isinstance(x, ast.Attribute) and x.attr == "ndarray" or isinstance(x, ast.Name) and x.id == "ndarray" for x in ast.walk(c.args[1])):
                    accepts = True
        if accepts:
            out.append(K)
    return out


def rule_sortall(ctx) -> RuleResult:
    import ast

    from ..model import AnalysisError
    from ._c17_flow import Flow, key_of

    res = RuleResult(
        "C18.SORTALL",
        "C18",
        "when sort_depths re-orders the vertices it re-orders the values of every child that can hold one value per vertex: the class "
        "filter on the loop over the children lets through every concrete Data class whose values may be a numpy array (derived from "
        "the Data hierarchy: the numeric family, text, ...), so each value stays attached to its depth",
        floor=1,
    )
    p = ctx.p
    dh = p.cls("Drillhole")
    fn = dh.methods.get("sort_depths")
    if fn is None:
        raise AnalysisError("anchor Drillhole.sort_depths not found")
    classes = _array_valued_data_classes(p)
    if len(classes) < 2:
        raise AnalysisError("C18.SORTALL: the Data classes holding array values could not be derived")
    every = {c.name for c in p.classes}
    v = ctx.view(fn)
    sn = v.self_name or "self"
    fl = Flow(v.node)
    parents = {}
    for n in ast.walk(v.node):
        for ch in ast.iter_child_nodes(n):
            parents[id(ch)] = n
    sites = 0
    for st in ast.walk(v.node):
        if not (isinstance(st, ast.Assign) and fl.nodes_of(st.value)):
            continue
        tg = next((t for t in st.targets if isinstance(t, ast.Attribute) and t.attr == "values" and isinstance(t.value, ast.Name)), None)
        if tg is None:
            continue
        var = tg.value.id
        loop = st
        while id(loop) in parents and not (isinstance(loop, ast.For) and any(isinstance(x, ast.Name) and x.id == var for x in ast.walk(loop.target))):
            loop = parents[id(loop)]
        if not isinstance(loop, ast.For):
            continue
        it, ienv = fl.resolve(loop.iter) if key_of(loop.iter) is not None else (loop.iter, None)
        if not any(isinstance(x, ast.Attribute) and x.attr == "children" and isinstance(x.value, ast.Name) and x.value.id == sn for x in fl.atoms(loop.iter)):
            continue
        sites += 1
        comp_ifs = []
        if isinstance(it, (ast.ListComp, ast.GeneratorExp, ast.SetComp)) and len(it.generators) == 1 and isinstance(it.generators[0].target, ast.Name):
            comp_ifs = [(it.generators[0].target.id, c) for c in it.generators[0].ifs]
        head = [n for n in fl.g.nodes if n.kind == "fornext" and n.stmt is loop]
        store_nodes = set(fl.nodes_of(st.value))
        left_out = []

        def is_child(e, env, cv):
            """e is the child under test: the loop variable, possibly handed to a predicate's parameter / read into a local"""
            r = fl.resolve(e, env)[0] if key_of(e) is not None else e
            return isinstance(r, ast.Name) and r.id == cv or isinstance(e, ast.Name) and e.id == cv

        def truth(t, env, cv, facts, depth=0):
            """three-valued truth of a condition under `the child is an instance of class C`; conditions read into locals (the result of
            an expanded predicate function, a named boolean) are followed to what they were computed from"""
            if depth > 8:
                return None
            if isinstance(t, ast.Name):
                r, renv = fl.resolve(t, env)
                return truth(r, renv, cv, facts, depth + 1) if r is not t else None
            if isinstance(t, ast.UnaryOp) and isinstance(t.op, ast.Not):
                x = truth(t.operand, env, cv, facts, depth + 1)
                return None if x is None else not x
            if isinstance(t, ast.BoolOp):
                vals = [truth(x, env, cv, facts, depth + 1) for x in t.values]
                if isinstance(t.op, ast.And):
                    return False if any(x is False for x in vals) else True if all(x is True for x in vals) else None
                return True if any(x is True for x in vals) else False if all(x is False for x in vals) else None
            if isinstance(t, ast.Call) and isinstance(t.func, ast.Name) and t.func.id == "isinstance" and len(t.args) == 2 and is_child(t.args[0], env, cv):
                names = t.args[1].elts if isinstance(t.args[1], ast.Tuple) else [t.args[1]]
                vals = [facts.get(n.attr if isinstance(n, ast.Attribute) else getattr(n, "id", None)) for n in names]
                return True if any(x is True for x in vals) else False if all(x is False for x in vals) else None
            return None

        def reachable(starts, cv, facts):
            seen_n, work = set(), list(starts)
            while work:
                n = work.pop()
                if n in seen_n:
                    continue
                seen_n.add(n)
                if n in head:
                    continue
                succ = n.succ
                if n.kind == "test" and n.ast is not None:
                    x = truth(n.ast, fl.env([n]), cv, facts)
                    if x is True:
                        succ = [(m, lab) for m, lab in succ if lab != "false"]
                    elif x is False:
                        succ = [(m, lab) for m, lab in succ if lab != "true"]
                work += [m for m, _lab in succ]
            return seen_n

        for C in classes:
            anc = {(c if isinstance(c, str) else c.name) for c in C.mro}
            facts = {nm: (nm in anc) for nm in every}
            kept = all(truth(c, fl.env(fl.nodes_of(c)) if fl.nodes_of(c) else {}, cv, facts) is not False for cv, c in comp_ifs)
            if kept:
                starts = [m for h in head for m, lab in h.succ if lab == "loop"]
                kept = bool(store_nodes & reachable(starts, var, facts))
            if not kept:
                left_out.append(C.name)
        ok = not left_out
        res.inst(f"Drillhole.sort_depths:{st.lineno} values of the children re-ordered for every array-valued Data class ({len(classes)} classes)", nontrivial=True, ok=ok)
        if not ok:
            res.find("Drillhole", "sort_depths", "vertex data of some array-valued Data classes are not re-ordered with the vertices", f"{fn.module.relpath}:{st.lineno}",
                     f"children of class {', '.join(sorted(left_out))} never reach the re-ordering of their values: after the vertices and the DEPTH data "
                     "are sorted, such a child still lists its values in the old order — every value is attached to another depth")
    if sites == 0:
        raise AnalysisError("Drillhole.sort_depths: no loop over the children that re-orders their values found")
    return res


_LOWER_CLAMPS = {"maximum", "fmax", "clip", "max", "where"}
_REORDERING = {"unique", "sort", "sorted", "lexsort", "msort", "partition", "shuffle", "permutation"}


def rule_clamp(ctx) -> RuleResult:
    import ast

    from ._c17_flow import Flow, call_name

    res = RuleResult(
        "C18.CLAMP",
        "C18",
        "the survey leg a depth falls in is looked up as `searchsorted(station depths, depth) - k`; that number is negative for a depth "
        "at or above the first station, and a negative index silently wraps to the last leg: wherever such a difference is used as an "
        "index in the Drillhole class it first passes a lower clamp (maximum / clip / where)",
        floor=1,
    )
    p = ctx.p
    dh = p.cls("Drillhole")

    def holds(node):
        return any(isinstance(c, ast.Call) and call_name(c) == "searchsorted" for c in ast.walk(node))

    def clamp(e):
        return isinstance(e, ast.Call) and call_name(e) in _LOWER_CLAMPS

    # functions of the package that return such a lookup (a station-lookup helper, a method of a small record holding the table):
    # name -> (returns a lookup, returns it without a lower clamp); a call to one is a lookup in its caller
    lookups: dict = {}
    for f in p.all_functions():
        if f.name.startswith("__") or not holds(f.node):
            continue
        fv = ctx.view(f)
        ffl = Flow(fv.node)

        def minus(e, stop=None, ffl=ffl):
            return isinstance(e, ast.BinOp) and isinstance(e.op, ast.Sub) and ffl.nodes_of(e) and \
                any(isinstance(x, ast.Call) and call_name(x) == "searchsorted" for x in ffl.atoms(e.left, stop=clamp, skip_index=True))

        any_, raw = False, False
        for r in ast.walk(fv.node):
            if isinstance(r, ast.Return) and r.value is not None and ffl.nodes_of(r.value):
                any_ = any_ or any(minus(a) for a in ffl.atoms(r.value, skip_index=True))
                raw = raw or any(minus(a) for a in ffl.atoms(r.value, stop=clamp, skip_index=True))
        if any_:
            old = lookups.get(f.name, (False, False))
            lookups[f.name] = (True, old[1] or raw)

    def calls_lookup(node):
        return any(isinstance(c, ast.Call) and call_name(c) in lookups for c in ast.walk(node))

    # names of the functions through which a lookup can be reached (they hold one, or call a function that does): a member calling one of
    # them may have the lookup expanded into its normalised view
    reach_names = {f.name for f in p.all_functions() if holds(f.node)}
    grew = True
    while grew:
        grew = False
        for f in p.all_functions():
            if f.name not in reach_names and any(isinstance(c, ast.Call) and call_name(c) in reach_names for c in ast.walk(f.node)):
                reach_names.add(f.name)
                grew = True
    members = [f for f in dh.methods.values()] + [f for pr in dh.props.values() for f in (pr.getter, pr.setter) if f is not None and f.cls is dh]
    for fn in sorted(members, key=lambda f: f.node.lineno):
        if not (holds(fn.node) or calls_lookup(fn.node) or any(isinstance(c, ast.Call) and call_name(c) in reach_names for c in ast.walk(fn.node))):
            continue
        v = ctx.view(fn)
        if not (holds(v.node) or calls_lookup(v.node)):
            continue
        fl = Flow(v.node)

        def lookup_minus(e, raw_only=False):
            """e is `<.. searchsorted(..) ..> - k`, or a call to a function of the package that returns one"""
            if isinstance(e, ast.Call) and call_name(e) in lookups and not (isinstance(e.func, ast.Attribute) and isinstance(e.func.value, ast.Name) and e.func.value.id in ("np", "numpy")):
                return lookups[call_name(e)][1] if raw_only else True
            return isinstance(e, ast.BinOp) and isinstance(e.op, ast.Sub) and fl.nodes_of(e) and \
                any(isinstance(x, ast.Call) and call_name(x) == "searchsorted" for x in fl.atoms(e.left, stop=clamp, skip_index=True))

        bad, uses = [], 0
        for x in ast.walk(v.node):
            if not (isinstance(x, ast.Subscript) and fl.nodes_of(x)):
                continue
            raw = [a for a in fl.atoms(x.slice, stop=clamp, skip_index=True) if lookup_minus(a, raw_only=True)]
            if any(lookup_minus(a) for a in fl.atoms(x.slice, skip_index=True)):
                uses += 1
            if raw:
                bad.append(x)
        if not uses:
            continue
        res.inst(f"Drillhole.{fn.name}: {uses} uses of a `searchsorted - k` index, each behind a lower clamp", nontrivial=True, ok=not bad)
        for x in bad[:1]:
            res.find("Drillhole", fn.prop or fn.name, "a `searchsorted(..) - k` index is used without a lower clamp", f"{fn.module.relpath}:{x.lineno}",
                     "for a depth at (or above) the first station the index is -1 and numpy wraps to the last station: the position of depth 0 is "
                     "computed from the bottom of the hole instead of being the collar")
    return res


def rule_invperm(ctx) -> RuleResult:
    import ast

    from ..model import AnalysisError
    from ._c17_flow import Flow, key_of

    res = RuleResult(
        "C18.INVPERM",
        "C18",
        "after the vertices are re-ordered as vertices[perm], arrays that hold vertex indices (the cells) are renumbered through the inverse "
        "of that permutation (argsort(perm)[cells], or an array scattered with inv[perm] = arange): gathering them through perm itself "
        "sends each cell to two unrelated vertices",
        floor=0,
    )
    dh = ctx.p.cls("Drillhole")
    fn = dh.methods.get("sort_depths")
    if fn is None:
        raise AnalysisError("anchor Drillhole.sort_depths not found")
    v = ctx.view(fn)
    sn = v.self_name or "self"
    fl = Flow(v.node)

    def ident(e):
        """what a name stands for at its use: the definitions reaching it"""
        if key_of(e) is None or not fl.nodes_of(e):
            return None
        r, renv = fl.resolve(e)  # through aliases: `p2 = perm` is perm
        if key_of(r) is None:
            return ("expr", id(r))
        ds, entry = fl.reaching(r, renv)
        return (key_of(r), frozenset(d.id for d in ds), entry)

    perms = []
    for st in ast.walk(v.node):
        if isinstance(st, ast.Assign) and fl.nodes_of(st.value) and any(key_of(t) == f"{sn}.vertices" for t in st.targets):
            for x in ast.walk(st.value):
                if isinstance(x, ast.Subscript) and key_of(fl.resolve(x.value)[0] if key_of(x.value) is not None else x.value) == f"{sn}.vertices":
                    idx = x.slice.elts[0] if isinstance(x.slice, ast.Tuple) and x.slice.elts else x.slice
                    if ident(idx) is not None:
                        perms.append(ident(idx))
    if not perms:
        return res
    for st in ast.walk(v.node):
        if not (isinstance(st, ast.Assign) and fl.nodes_of(st.value) and any(key_of(t) == f"{sn}.cells" for t in st.targets)):
            continue
        forward = []
        gathers = 0
        for e in fl.cone(st.value):
            for x in ast.walk(e):
                if isinstance(x, ast.Subscript) and fl.nodes_of(x) and any(isinstance(a, ast.Attribute) and key_of(a) == f"{sn}.cells" for a in fl.atoms(x.slice)):
                    gathers += 1
                    if ident(x.value) in perms:
                        forward.append(x)
        if not gathers:
            continue
        res.inst(f"Drillhole.sort_depths:{st.lineno} cells renumbered through the inverse of the permutation applied to the vertices", nontrivial=True, ok=not forward)
        for x in forward[:1]:
            res.find("Drillhole", "sort_depths", "the cells are renumbered with the permutation itself instead of its inverse", f"{fn.module.relpath}:{x.lineno}",
                     "after vertices[perm] the old vertex i sits at argsort(perm)[i]; perm[i] is the old index of the vertex now at i: every interval "
                     "cell joins two arbitrary vertices as soon as a re-sort really moves something")
    return res


def rule_order(ctx) -> RuleResult:
    import ast

    from ..cache import deps
    from ._c17_flow import Flow, call_name, key_of

    res = RuleResult(
        "C18.ORDER",
        "C18",
        "the survey table is stored in the row order it was given in: nothing on the data flow from the value handed to the surveys "
        "setter to the stored table sorts or de-duplicates it (unique / sort / lexsort ...) — two stations at the same depth keep "
        "their order, the first closes the upper leg and the second opens the lower one",
        floor=1,
    )
    p = ctx.p
    dh = p.cls("Drillhole")
    done = set()
    for K in p.subclasses(dh):
        if K.synthetic:
            continue
        m = K.lookup("surveys")
        if not m or m[1] != "prop" or m[2].setter is None:
            continue
        backing = deps(K, m[2].getter, "") if m[2].getter is not None else set()
        work = [(m[2].setter, "store")]
        while work:
            fn, mode = work.pop()
            callees_differ = K is not dh and any(K.lookup(c.func.attr) != dh.lookup(c.func.attr) for c in _self_calls(fn.node, fn.self_name or "self"))
            key = (id(fn.node), mode, K.name if callees_differ else "")
            if key in done:
                continue
            done.add(key)
            v = ctx.view(fn)
            sn = v.self_name or "self"
            fl = Flow(v.node)
            exprs = []
            for st in ast.walk(v.node):
                if mode == "store" and isinstance(st, (ast.Assign, ast.AnnAssign)) and st.value is not None and fl.nodes_of(st.value):
                    tg = st.targets if isinstance(st, ast.Assign) else [st.target]
                    if any(key_of(t) in [f"{sn}.{f}" for f in backing] for t in tg):
                        exprs.append(st.value)
                if mode == "return" and isinstance(st, ast.Return) and st.value is not None and fl.nodes_of(st.value):
                    exprs.append(st.value)
            if not exprs:
                continue
            atoms = [a for e in exprs for a in fl.atoms(e)]
            bad = [c for c in atoms if isinstance(c, ast.Call) and call_name(c) in _REORDERING]
            res.inst(f"{K.name}: {fn.qualname} hands the survey table on in the given row order", nontrivial=True, ok=not bad)
            for c in bad[:1]:
                res.find(fn.cls.name, fn.prop or fn.name, f"{call_name(c)} on the flow from the given survey table to the stored one", f"{fn.module.relpath}:{c.lineno}",
                         "stations sharing a depth (a kink, a re-survey) are re-ordered by their angles: the upper leg is closed with the direction that "
                         "should open the lower one, positions between the neighbouring stations are off and the path is no longer what was surveyed",
                         resolved_on=K.name)
            for c in atoms:
                if isinstance(c, ast.Call):
                    rc = _resolve_callee(ctx, K, v, c)
                    if rc is not None and rc[0].node is not fn.node and rc[0].module.in_scope:
                        work.append((rc[0], "return"))
    return res


def rule_pure(ctx) -> RuleResult:
    import ast

    from ..model import AnalysisError
    from ._c17_flow import Flow, alias_origins, inplace_updates

    res = RuleResult(
        "C18.PURE",
        "C18",
        "computing positions does not rewrite its input: Drillhole.desurvey (normalised view) never updates in place (a op= v, a[i] = v) "
        "an array that may be the caller's depth array itself or a no-copy view of it (np.asarray of a float array, a slice, .T, reshape) — "
        "the callers go on to store those depths as DEPTH / FROM / TO",
        floor=1,
    )
    dh = ctx.p.cls("Drillhole")
    fn = dh.methods.get("desurvey")
    if fn is None:
        raise AnalysisError("anchor Drillhole.desurvey not found")
    v = ctx.view(fn)
    fl = Flow(v.node)
    params = set(fn.params[1:])
    ups = inplace_updates(fl, v.node)
    bad = []
    for st, b, env in ups:
        for o, _oenv in alias_origins(fl, b, env):
            if isinstance(o, ast.Name) and o.id in params:
                bad.append((st, o.id))
    res.inst(f"Drillhole.desurvey: {len(ups)} in-place updates, none on (a view of) a parameter", nontrivial=True, ok=not bad)
    for st, name in bad[:1]:
        line = st.lineno if fn.node.lineno <= st.lineno <= fn.node.end_lineno else fn.node.lineno
        res.find("Drillhole", "desurvey", "the depths handed in are updated in place", f"{fn.module.relpath}:{line}",
                 f"the array updated here may be the caller's `{name}` itself (no copy was made on that path): after the call the caller's depths are "
                 "distances past the station above, and validate_depth_data / validate_interval_data store them as DEPTH / FROM / TO")
    return res


def rule_mapped(ctx) -> RuleResult:
    import ast

    from ..model import AnalysisError
    from ._c17_flow import Flow

    res = RuleResult(
        "C18.MAPPED",
        "C18",
        "once validate_interval_data has matched the added intervals against the existing ones (the collocation test), what it returns is "
        "computed through that match: no return that the match reaches hands back values that do not depend on it (an early return would "
        "leave the values of matched intervals in the order given instead of on their cells)",
        floor=1,
    )
    dh = ctx.p.cls("Drillhole")
    vi0 = dh.methods.get("validate_interval_data")
    if vi0 is None:
        raise AnalysisError("anchor Drillhole.validate_interval_data not found")
    tol0 = [q for q in vi0.params[1:] if q not in _DEPTH_PARAMS + _VALUE_PARAMS]
    sites = [s for s in _tolerance_sites(ctx, dh, vi0, tol0)]
    v = ctx.view(vi0)
    own = [s[3] for s in sites if s[0] is v]
    fl = Flow(v.node)
    # the match, as seen from validate_interval_data: the comparison itself, or the call that holds it (a helper that could not be expanded)
    marks = set(id(c) for c in own)
    if not own and sites:
        for c in ast.walk(v.node):
            if isinstance(c, ast.Call) and fl.nodes_of(c) and any((fl.roots(a) if fl.nodes_of(a) else set()) & set(tol0) for a in list(c.args) + [k.value for k in c.keywords]):
                marks.add(id(c))
    if not marks:
        raise AnalysisError("validate_interval_data: the collocation test was not found")

    def through_match(e, env=None):
        return any(id(x) in marks for x in fl.atoms(e, env))

    match_defs = {d.id for d in fl.defs if d.value is not None and any(id(x) in marks for x in ast.walk(d.value))}
    # names whose value depends on the match, transitively
    changed = True
    while changed:
        changed = False
        for d in fl.defs:
            if d.id not in match_defs and d.value is not None and not d.scoped and through_match(d.value, fl.env([d.node])):
                match_defs.add(d.id)
                changed = True
    n = 0
    for r in ast.walk(v.node):
        if not (isinstance(r, ast.Return) and r.value is not None and fl.nodes_of(r.value)):
            continue
        env = fl.env(fl.nodes_of(r.value))
        reached = any(d in match_defs for ds in env.values() for d in ds)
        if not reached:
            continue
        n += 1
        ok = through_match(r.value, env)
        res.inst(f"validate_interval_data:{r.lineno} a return reached by the interval match returns values computed through it", nontrivial=True, ok=ok)
        if not ok:
            res.find("Drillhole", "validate_interval_data", "values are returned without passing the interval match", f"{vi0.module.relpath}:{r.lineno}",
                     "the added intervals were matched against the existing cells, but this return hands the values back as given: values of matched "
                     "intervals are not moved onto their cells (and the other cells get no fill)")
    if n == 0:
        raise AnalysisError("validate_interval_data: no return is reached by the interval match")
    return res


RULES = [rule_cache, rule_prov, rule_match, rule_keep, rule_dev, rule_width, rule_sortall, rule_clamp, rule_invperm, rule_order, rule_pure, rule_mapped]
