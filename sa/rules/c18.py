"""C18 — drillhole positions follow the survey (structural clauses)."""

from __future__ import annotations

from ..report import RuleResult
from .c17 import cache_rule


def rule_cache(ctx):
    return cache_rule(
        ctx, "C18.CACHE", "C18", ["Drillhole"], 2,
        "every setter/method that stores an input (_collar, _surveys) of the memoised Drillhole.locations resets "
        "_locations on every path on which it stores",
        only_fields={"_locations"},
    )


RULES = [rule_cache]


def rule_prov(ctx) -> RuleResult:
    import ast

    from ..model import AnalysisError, unparse

    res = RuleResult(
        "C18.PROV",
        "C18",
        "every argument handed to Drillhole.add_vertices in validate_depth_data / validate_interval_data is "
        "self.desurvey(d) with d derived from the depths being added (never from the values, never raw depths as coordinates)",
        floor=4,
    )
    p = ctx.p
    dh = p.cls("Drillhole")
    n_calls = 0
    for name, fn in dh.methods.items():
        calls = [c for c in ast.walk(fn.node) if isinstance(c, ast.Call) and unparse(c.func) == "self.add_vertices"]
        if not calls:
            continue
        defs = {}
        for a in ast.walk(fn.node):
            if isinstance(a, ast.Assign):
                for t in a.targets:
                    for nm in ([t] if isinstance(t, ast.Name) else [e for e in ast.walk(t) if isinstance(e, ast.Name)]):
                        defs.setdefault(nm.id, []).append(a.value)
        params = fn.params[1:]
        depth_params = [q for q in params if q in ("depth", "from_to", "depths")]
        value_params = [q for q in params if q in ("values",)]

        def roots(e, seen=()):
            out = set()
            for x in ast.walk(e):
                if isinstance(x, ast.Name):
                    if x.id in defs and x.id not in seen and x.id not in params:
                        for d in defs[x.id]:
                            out |= roots(d, seen + (x.id,))
                    else:
                        out.add(x.id)
            return out

        for c in calls:
            n_calls += 1
            a = c.args[0] if c.args else None
            where = f"{fn.module.relpath}:{c.lineno}"
            is_des = isinstance(a, ast.Call) and unparse(a.func) == "self.desurvey" and len(a.args) == 1
            if not is_des:
                res.inst(f"Drillhole.{name}:{c.lineno} add_vertices({unparse(a)[:40]})", ok=False)
                res.find("Drillhole", name, f"add_vertices({unparse(a)[:40]}) is not a desurveyed position", where,
                         "vertices created for depth data are not located on the surveyed path")
                continue
            r = roots(a.args[0])
            ok = any(q in r for q in depth_params) and not any(q in r for q in value_params)
            res.inst(f"Drillhole.{name}:{c.lineno} add_vertices(self.desurvey({unparse(a.args[0])[:40]})) <- {sorted(r & set(params))}", nontrivial=True, ok=ok)
            if not ok:
                res.find("Drillhole", name, f"desurveyed depths derive from {sorted(r & set(params))}", where,
                         "the positions of the new vertices are computed from something else than the depths being added")
    if n_calls < 4:
        raise AnalysisError(f"C18.PROV: only {n_calls} add_vertices call sites found")
    # the same depths feed the DEPTH / FROM / TO data
    vd = dh.methods["validate_depth_data"]
    txt = unparse(vd.node)
    ok = "self.depths = np.r_[" in txt and "depth" in txt
    res.inst("validate_depth_data: the DEPTH data are extended with the same `depth` array", ok=ok)
    if not ok:
        res.find("Drillhole", "validate_depth_data", "DEPTH data not extended with the added depths", vd.where, "values are attached to vertices whose DEPTH is something else")
    return res


def rule_match(ctx) -> RuleResult:
    import ast

    from ..model import AnalysisError, unparse
    from .c17 import _flow_names

    res = RuleResult(
        "C18.MATCH",
        "C18",
        "(a) a function that searches positions in an argsort-permuted copy of an array (np.searchsorted(a[perm], ..)) maps "
        "the positions it returns back through that permutation (perm[...]): returned indices refer to the caller's array, "
        "not to the sorted copy; (b) an added interval is matched to an existing one only when BOTH its from and its to "
        "coincide: the collocation test reduces over the (from, to) axis with an all-components reduction "
        "(norm / max / all), never min / any",
        floor=2,
    )
    p = ctx.p
    n_a = 0
    for fn in p.all_functions():
        calls = [c for c in ast.walk(fn.node) if isinstance(c, ast.Call) and unparse(c.func) in ("np.searchsorted", "numpy.searchsorted") and c.args]
        if not calls:
            continue
        defs = _flow_names(fn)

        def argsorts(e, seen=()):
            """argsort calls in e, through local names"""
            out = []
            for x in ast.walk(e):
                if isinstance(x, ast.Call) and unparse(x.func) in ("np.argsort", "numpy.argsort"):
                    out.append(x)
                if isinstance(x, ast.Name) and x.id in defs and x.id not in seen:
                    for d in defs[x.id]:
                        out += argsorts(d, seen + (x.id,))
            return out

        for c in calls:
            hay = c.args[0]
            # permuted: hay contains X[<argsort-derived>]
            perm_subs = [x for x in ast.walk(hay) if isinstance(x, ast.Subscript) and argsorts(x.slice)]
            via_names = []
            for x in ast.walk(hay):
                if isinstance(x, ast.Name) and x.id in defs:
                    for d in defs[x.id]:
                        via_names += [y for y in ast.walk(d) if isinstance(y, ast.Subscript) and argsorts(y.slice)]
                        via_names += [y for y in ast.walk(d) if isinstance(y, ast.Call) and unparse(y.func) in ("np.sort", "sorted")]
            if not (perm_subs or via_names):
                continue
            n_a += 1
            # returned value must pass through <perm>[...] with perm argsort-derived
            perm_names = {nm for nm, ds in defs.items() if any(isinstance(d, ast.Call) and unparse(d.func) in ("np.argsort", "numpy.argsort") for d in ds)}

            def mapped_back(e, seen=()):
                for x in ast.walk(e):
                    if isinstance(x, ast.Subscript) and isinstance(x.value, ast.Name) and x.value.id in perm_names:
                        return True
                    if isinstance(x, ast.Subscript) and isinstance(x.value, ast.Call) and unparse(x.value.func) in ("np.argsort", "numpy.argsort"):
                        return True
                    if isinstance(x, ast.Name) and x.id in defs and x.id not in seen and x.id not in perm_names:
                        if any(mapped_back(d, seen + (x.id,)) for d in defs[x.id]):
                            return True
                return False

            rets = [r for r in ast.walk(fn.node) if isinstance(r, ast.Return) and r.value is not None]
            ok = bool(rets) and all(mapped_back(r.value) for r in rets)
            res.inst(f"{fn.qualname}:{c.lineno} searchsorted in a permuted copy; returned indices mapped back through the permutation", nontrivial=True, ok=ok)
            if not ok:
                res.find(fn.cls.name if fn.cls else fn.module.short, fn.name, "positions found in the sorted copy are returned without mapping back through the argsort permutation",
                         f"{fn.module.relpath}:{c.lineno}",
                         "the returned indices address the sorted copy: for an input that is not already sorted, matches point at other elements "
                         "(depth data are merged onto the wrong vertices)")
    if n_a == 0:
        raise AnalysisError("C18.MATCH: no searchsorted-in-permuted-copy site found (match_values moved?)")
    # (b)
    dh = p.cls("Drillhole")
    vi = dh.methods.get("validate_interval_data")
    if vi is None:
        raise AnalysisError("anchor Drillhole.validate_interval_data not found")
    ALL_RED = {"np.linalg.norm", "np.max", "np.amax", "np.all", "max"}
    ANY_RED = {"np.min", "np.amin", "np.any", "min"}
    cmps = [c for c in ast.walk(vi.node) if isinstance(c, ast.Compare) and any("collocation_distance" in unparse(x) for x in c.comparators)]
    if not cmps:
        raise AnalysisError("validate_interval_data: comparison against collocation_distance not found")
    for c in cmps:
        left = c.left
        kind = None
        for x in ast.walk(left):
            if isinstance(x, ast.Call):
                fnm = unparse(x.func)
                meth = x.func.attr if isinstance(x.func, ast.Attribute) else None
                on_np = isinstance(x.func, ast.Attribute) and unparse(x.func.value) in ("np", "numpy", "np.linalg")
                if fnm in ALL_RED or (meth in ("max", "all") and not on_np):
                    kind = kind or "all"
                if fnm in ANY_RED or (meth in ("min", "any") and not on_np):
                    kind = "any"
        if kind is None:
            raise AnalysisError(f"validate_interval_data:{c.lineno}: reduction over the (from, to) axis not recognised in `{unparse(left)[:60]}`")
        ok = kind == "all" and isinstance(c.ops[0], (ast.Lt, ast.LtE))
        res.inst(f"validate_interval_data:{c.lineno} interval match = {unparse(left)[:50]} < tolerance", nontrivial=True, ok=ok)
        if not ok:
            res.find("Drillhole", "validate_interval_data", f"an interval matches when ANY endpoint coincides ({unparse(left)[:50]})",
                     f"{vi.module.relpath}:{c.lineno}",
                     "an added interval sharing only its from (or only its to) with an existing one is treated as that interval: its values are "
                     "attached to the wrong cell and no vertices are created for its other endpoint")
    return res


RULES = [rule_cache, rule_prov, rule_match]
