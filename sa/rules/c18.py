"""C18 — drillhole positions follow the survey (structural clauses)."""

from __future__ import annotations

from ..report import RuleResult
from .c17 import cache_rule


def rule_cache(ctx):
    return cache_rule(
        ctx, "C18.CACHE", "C18", ["Drillhole"], 2,
        "every setter/method that stores an input (_collar, _surveys) of the memoised Drillhole.locations resets "
        "_locations on every path on which it stores",
        only_fields={"_locations"},
    )


RULES = [rule_cache]
