"""C18 — drillhole positions follow the survey (structural clauses)."""

from __future__ import annotations

from ..report import RuleResult
from .c17 import cache_rule


def rule_cache(ctx):
    return cache_rule(
        ctx, "C18.CACHE", "C18", ["Drillhole"], 2,
        "every setter/method that stores an input (_collar, _surveys) of the memoised Drillhole.locations resets "
        "_locations on every path on which it stores",
        only_fields={"_locations"},
    )


RULES = [rule_cache]


def rule_prov(ctx) -> RuleResult:
    import ast

    from ..model import AnalysisError, unparse

    res = RuleResult(
        "C18.PROV",
        "C18",
        "every argument handed to Drillhole.add_vertices in validate_depth_data / validate_interval_data is "
        "self.desurvey(d) with d derived from the depths being added (never from the values, never raw depths as coordinates)",
        floor=4,
    )
    p = ctx.p
    dh = p.cls("Drillhole")
    n_calls = 0
    for name, fn in dh.methods.items():
        calls = [c for c in ast.walk(fn.node) if isinstance(c, ast.Call) and unparse(c.func) == "self.add_vertices"]
        if not calls:
            continue
        defs = {}
        for a in ast.walk(fn.node):
            if isinstance(a, ast.Assign):
                for t in a.targets:
                    for nm in ([t] if isinstance(t, ast.Name) else [e for e in ast.walk(t) if isinstance(e, ast.Name)]):
                        defs.setdefault(nm.id, []).append(a.value)
        params = fn.params[1:]
        depth_params = [q for q in params if q in ("depth", "from_to", "depths")]
        value_params = [q for q in params if q in ("values",)]

        def roots(e, seen=()):
            out = set()
            for x in ast.walk(e):
                if isinstance(x, ast.Name):
                    if x.id in defs and x.id not in seen and x.id not in params:
                        for d in defs[x.id]:
                            out |= roots(d, seen + (x.id,))
                    else:
                        out.add(x.id)
            return out

        for c in calls:
            n_calls += 1
            a = c.args[0] if c.args else None
            where = f"{fn.module.relpath}:{c.lineno}"
            is_des = isinstance(a, ast.Call) and unparse(a.func) == "self.desurvey" and len(a.args) == 1
            if not is_des:
                res.inst(f"Drillhole.{name}:{c.lineno} add_vertices({unparse(a)[:40]})", ok=False)
                res.find("Drillhole", name, f"add_vertices({unparse(a)[:40]}) is not a desurveyed position", where,
                         "vertices created for depth data are not located on the surveyed path")
                continue
            r = roots(a.args[0])
            ok = any(q in r for q in depth_params) and not any(q in r for q in value_params)
            res.inst(f"Drillhole.{name}:{c.lineno} add_vertices(self.desurvey({unparse(a.args[0])[:40]})) <- {sorted(r & set(params))}", nontrivial=True, ok=ok)
            if not ok:
                res.find("Drillhole", name, f"desurveyed depths derive from {sorted(r & set(params))}", where,
                         "the positions of the new vertices are computed from something else than the depths being added")
    if n_calls < 4:
        raise AnalysisError(f"C18.PROV: only {n_calls} add_vertices call sites found")
    # the same depths feed the DEPTH / FROM / TO data
    vd = dh.methods["validate_depth_data"]
    txt = unparse(vd.node)
    ok = "self.depths = np.r_[" in txt and "depth" in txt
    res.inst("validate_depth_data: the DEPTH data are extended with the same `depth` array", ok=ok)
    if not ok:
        res.find("Drillhole", "validate_depth_data", "DEPTH data not extended with the added depths", vd.where, "values are attached to vertices whose DEPTH is something else")
    return res


RULES = [rule_cache, rule_prov]
