"""C19 — the reader tolerates missing optional content (guard lint)."""

from __future__ import annotations

import ast

from ..cfg import CFG, forward
from ..model import AnalysisError, unparse
from ..report import RuleResult
from .c10 import _handle_expr, _mentions
from ..roles import canon, writer_roles

CATCHES = {"KeyError", "Exception", "BaseException", "LookupError"}


def facts_of(test, truth: bool) -> set:
    if isinstance(test, ast.UnaryOp) and isinstance(test.op, ast.Not):
        return facts_of(test.operand, not truth)
    if isinstance(test, ast.BoolOp):
        if isinstance(test.op, ast.And) and truth:
            return set().union(*[facts_of(v, True) for v in test.values])
        if isinstance(test.op, ast.Or) and not truth:
            return set().union(*[facts_of(v, False) for v in test.values])
        return set()
    if isinstance(test, ast.Compare) and len(test.ops) == 1:
        if (isinstance(test.ops[0], ast.In) and truth) or (isinstance(test.ops[0], ast.NotIn) and not truth):
            return {(unparse(test.left), unparse(test.comparators[0]))}
        if isinstance(test.ops[0], ast.Eq) and truth and isinstance(test.left, ast.Name) and isinstance(test.comparators[0], ast.Constant):
            return {("==", test.left.id, test.comparators[0].value)}
    return set()


def tainted_names(fn):
    tainted = set()
    params = fn.params
    if fn.kind in ("classmethod", "method") and params:
        params = params[1:]
    for prm, arg in zip(params, [a for a in fn.node.args.args if a.arg in params]):
        ann = unparse(arg.annotation) if arg.annotation is not None else ""
        if prm in ("file", "h5file") or "h5py" in ann:
            tainted.add(prm)
    changed = True
    while changed:
        changed = False
        for n in ast.walk(fn.node):
            if isinstance(n, ast.With):
                for it in n.items:
                    if it.optional_vars is not None and isinstance(it.optional_vars, ast.Name) and _mentions(it.context_expr, tainted):
                        if it.optional_vars.id not in tainted:
                            tainted.add(it.optional_vars.id)
                            changed = True
            if isinstance(n, ast.Assign) and len(n.targets) == 1 and isinstance(n.targets[0], ast.Name):
                if _handle_expr(n.value, tainted) and n.targets[0].id not in tainted:
                    tainted.add(n.targets[0].id)
                    changed = True
            if isinstance(n, ast.For):
                # `for child_type, child_list in entity.items()` / `for x in handle` — members of a handle
                it = n.iter
                base = it.func.value if isinstance(it, ast.Call) and isinstance(it.func, ast.Attribute) and it.func.attr in ("items", "values") else it
                if _handle_expr(base, tainted):
                    names = [t.id for t in ast.walk(n.target) if isinstance(t, ast.Name)]
                    if isinstance(it, ast.Call) and it.func.attr == "items" and len(names) == 2:
                        names = names[1:]
                    elif not isinstance(it, ast.Call):
                        names = []  # iterating a group yields key strings
                    for nm in names:
                        if nm not in tainted:
                            tainted.add(nm)
                            changed = True
    return tainted


def _in_guarded_try(fn, node) -> bool:
    for t in ast.walk(fn.node):
        if isinstance(t, ast.Try):
            if any(node in list(ast.walk(s)) for s in t.body):
                for h in t.handlers:
                    if h.type is None:
                        return True
                    names = h.type.elts if isinstance(h.type, ast.Tuple) else [h.type]
                    if any(isinstance(x, ast.Name) and x.id in CATCHES for x in names):
                        return True
    return False


def rule_guard(ctx) -> RuleResult:
    res = RuleResult(
        "C19.GUARD",
        "C19",
        "every subscript of (possibly missing) file content in H5Reader is guarded — inside try/except KeyError, "
        "dominated by an `in` test of the same key on the same node, or replaced by .get — except the mandatory "
        "containers (project group, flat containers, the type node in fetch_type)",
        floor=25,
    )
    p = ctx.p
    R = p.cls("H5Reader")
    n_guard = {"try": 0, "in": 0, "get": 0, "mandatory": 0}
    for name, fn in R.methods.items():
        tainted = tainted_names(fn)
        if not tainted:
            continue
        g = CFG(fn.node)

        def transfer(node, st):
            if node.kind in ("test", "assert") and node.ast is not None:
                return {"true": st | frozenset(facts_of(node.ast, True)), "false": st | frozenset(facts_of(node.ast, False)), None: st}
            return st

        IN = forward(g, frozenset(), transfer, lambda a, b: a & b)
        for node in g.nodes:
            if node.ast is None or isinstance(node.ast, list):
                continue
            src = node.ast
            subs = []
            if node.kind == "with":
                for it in src.items:
                    subs += [x for x in ast.walk(it.context_expr) if isinstance(x, ast.Subscript)]
            else:
                subs = [x for x in ast.walk(src) if isinstance(x, ast.Subscript)]
            for x in subs:
                if not isinstance(x.ctx, ast.Load) or not _handle_expr(x.value, tainted):
                    continue
                if isinstance(x.slice, ast.Slice) or (isinstance(x.slice, ast.Tuple) and not x.slice.elts):
                    continue  # materialisation of a dataset that was already reached
                key, base = unparse(x.slice), unparse(x.value)
                where = f"{fn.module.relpath}:{x.lineno}"
                if _in_guarded_try(fn, x):
                    n_guard["try"] += 1
                    res.inst(f"H5Reader.{name}:{x.lineno} {base}[{key}] in try/except KeyError", nontrivial=True)
                    continue
                if (key, base) in IN.get(node, frozenset()):
                    n_guard["in"] += 1
                    res.inst(f"H5Reader.{name}:{x.lineno} {base}[{key}] dominated by `{key} in {base}`", nontrivial=True)
                    continue
                known = [f[2] for f in IN.get(node, frozenset()) if len(f) == 3 and f[0] == "==" and f[1] == key]
                # locals by role: the project-group name is the local bound from list(<file>)[0]
                roles_ = writer_roles(fn.node)
                key_c, base_c = canon(x.slice, roles_), canon(x.value, roles_)
                flat = key == "entity_type" and base_c.endswith("[base]") and all(k in ("Data", "Groups", "Objects", "Types") for k in known)
                mandatory = (
                    (key_c in ("base", "base[0]") and base in tainted)  # project group
                    or flat  # flat container chosen by kind (not the optional Root link)
                    or (name == "fetch_type")  # a missing type node may raise (mandatory item)
                )
                if mandatory:
                    n_guard["mandatory"] += 1
                    res.inst(f"H5Reader.{name}:{x.lineno} {base}[{key}] mandatory container (may raise)")
                    continue
                res.inst(f"H5Reader.{name}:{x.lineno} {base}[{key}] UNGUARDED", ok=False)
                res.find("H5Reader", name, f"unguarded access {base}[{key}]", where,
                         f"{base}[{key}] is read without an `in` test, .get or except KeyError: a file that lacks this optional "
                         "item cannot be opened (KeyError) although every other entity is intact")
        for x in ast.walk(fn.node):
            if isinstance(x, ast.Call) and isinstance(x.func, ast.Attribute) and x.func.attr == "get" and _handle_expr(x.func.value, tainted):
                n_guard["get"] += 1
                res.inst(f"H5Reader.{name}:{x.lineno} {unparse(x)[:50]} (.get)")
    res.notes.append(f"guard constructs: {n_guard}")
    # Workspace side
    fr = p.func("Workspace.fetch_or_create_root")
    ifs = [n for n in ast.walk(fr.node) if isinstance(n, ast.If) and "is not None" in unparse(n.test) and n.orelse]
    ok = any("create_entity" in unparse(ast.Module(body=i.orelse, type_ignores=[])) and "RootGroup" in unparse(ast.Module(body=i.orelse, type_ignores=[])) for i in ifs)
    res.inst("Workspace.fetch_or_create_root: missing Root link -> a root group is rebuilt", nontrivial=True, ok=ok)
    if not ok:
        res.find("Workspace", "fetch_or_create_root", "no branch rebuilding the root when the Root link is missing", fr.where,
                 "a file without the (optional) Root link cannot be opened")
    le = p.func("Workspace.load_entity")
    from ..roles import bound_from
    attrs_l = set(bound_from(le.node, lambda e: "fetch_attributes" in unparse(e)))
    ok = any(isinstance(n, ast.If) and isinstance(n.test, ast.Compare) and isinstance(n.test.left, ast.Name) and n.test.left.id in attrs_l and unparse(n.test).endswith(" is None")
             and any(isinstance(s, ast.Return) for s in n.body) for n in ast.walk(le.node))
    res.inst("Workspace.load_entity: missing node -> None (entity left out)", nontrivial=True, ok=ok)
    if not ok:
        res.find("Workspace", "load_entity", "no `attributes is None` early return", le.where,
                 "a dangling child link makes the whole load fail instead of leaving that entity out")
    return res


def rule_scope(ctx) -> RuleResult:
    res = RuleResult(
        "C19.SCOPE",
        "C19",
        "inside H5Reader, a loop over several items of the file that sits in a try/except KeyError (handler outside the "
        "loop) performs no lookup that can itself be missing — only `handle[k]` with k iterated from that same handle — "
        "unless the lookup has its own guard inside the loop: otherwise one missing optional item silently drops all the "
        "items after it",
        floor=3,
    )
    p = ctx.p
    R = p.cls("H5Reader")
    for name, fn in R.methods.items():
        tainted = tainted_names(fn)
        if not tainted:
            continue
        for t in ast.walk(fn.node):
            if not isinstance(t, ast.Try):
                continue
            catches = False
            for h in t.handlers:
                names = [] if h.type is None else (h.type.elts if isinstance(h.type, ast.Tuple) else [h.type])
                if h.type is None or any(isinstance(x, ast.Name) and x.id in CATCHES for x in names):
                    catches = True
            if not catches:
                continue
            loops = [lp for s in t.body for lp in ast.walk(s) if isinstance(lp, (ast.For, ast.ListComp, ast.DictComp, ast.GeneratorExp))]
            for lp in loops:
                if isinstance(lp, ast.For):
                    body_nodes = [x for s in lp.body for x in ast.walk(s)]
                    iters = [(lp.target, lp.iter)]
                else:
                    body_nodes = [x for part in ([lp.elt] if hasattr(lp, "elt") else [lp.key, lp.value]) for x in ast.walk(part)]
                    iters = [(gen.target, gen.iter) for gen in lp.generators]
                own = set()  # (base text, key name): keys drawn from the handle itself
                for tg, it in iters:
                    base = it.func.value if isinstance(it, ast.Call) and isinstance(it.func, ast.Attribute) and it.func.attr in ("keys", "items") else it
                    names = [x.id for x in ast.walk(tg) if isinstance(x, ast.Name)]
                    if names:
                        own.add((unparse(base), names[0]))
                inner_tries = [x for x in body_nodes if isinstance(x, ast.Try)]
                inner_guarded = {id(y) for it in inner_tries for s in it.body for y in ast.walk(s)}
                in_tests = set()
                for x in body_nodes:
                    if isinstance(x, ast.If):
                        for f in facts_of(x.test, True):
                            if len(f) == 2:
                                in_tests.add(f)
                bad = []
                n_sub = 0
                for x in body_nodes:
                    if not (isinstance(x, ast.Subscript) and isinstance(x.ctx, ast.Load) and _handle_expr(x.value, tainted)):
                        continue
                    if isinstance(x.slice, ast.Slice) or (isinstance(x.slice, ast.Tuple) and not x.slice.elts):
                        continue
                    n_sub += 1
                    key, base = unparse(x.slice), unparse(x.value)
                    if (base, key) in own or id(x) in inner_guarded or (key, base) in in_tests:
                        continue
                    bad.append(x)
                res.inst(f"H5Reader.{name}:{lp.lineno} loop inside try/except: {n_sub} lookups, all on the handle's own keys or guarded per item", nontrivial=True, ok=not bad)
                for x in bad[:2]:
                    res.find("H5Reader", name, f"per-item lookup {unparse(x)[:40]} inside a loop guarded only from outside", f"{fn.module.relpath}:{x.lineno}",
                             f"when `{unparse(x)[:40]}` is missing for one item the KeyError leaves the whole loop: every item after it is silently dropped "
                             "although nothing describing those items is missing")
    return res


PERSISTING = {"save_entity", "save_entity_type", "update_attribute", "finalize", "add_or_update_property_group", "remove_entity", "remove_children"}


def rule_load(ctx, rule_id="C19.LOAD", prop="C19") -> RuleResult:
    res = RuleResult(
        rule_id,
        prop,
        "the load path (Workspace.open and every Workspace method it reaches through self.<method>) makes no "
        "persisting call: no save_entity / update_attribute / H5Writer call, and entities it constructs are created "
        "with save_on_creation=False; constructors (which also run while loading) assign type attributes only "
        "conditionally — opening a file (also one that lacks the Root link) needs no write access and writes nothing",
        floor=5,
    )
    p = ctx.p
    W = p.cls("Workspace")
    start = W.methods.get("open")
    if start is None:
        raise AnalysisError("anchor Workspace.open not found")
    seen, work = {}, [start]
    CONSTRUCTORS = {"create_entity", "create_data", "create_object_or_group", "create_from_concatenation"}
    while work:
        fn = work.pop()
        if fn.name in seen:
            continue
        seen[fn.name] = fn
        sn = fn.self_name or "self"
        for c in ast.walk(fn.node):
            if isinstance(c, ast.Call) and isinstance(c.func, ast.Attribute) and isinstance(c.func.value, ast.Name) and c.func.value.id == sn:
                m = W.lookup(c.func.attr)
                if m and m[1] == "method" and c.func.attr not in PERSISTING and c.func.attr not in CONSTRUCTORS and c.func.attr not in ("_io_call", "close"):
                    work.append(m[2])
    for nm, fn in sorted(seen.items()):
        sn = fn.self_name or "self"
        bad = []
        for c in ast.walk(fn.node):
            if not isinstance(c, ast.Call):
                continue
            f = c.func
            if isinstance(f, ast.Attribute) and isinstance(f.value, ast.Name) and f.value.id == sn:
                if f.attr in PERSISTING:
                    bad.append((c, f"self.{f.attr}(...)"))
                elif f.attr == "_io_call" and c.args and unparse(c.args[0]).startswith("H5Writer"):
                    bad.append((c, f"self._io_call({unparse(c.args[0])}, ...)"))
                elif f.attr in CONSTRUCTORS and f.attr == "create_entity":
                    kw = {k.arg: unparse(k.value) for k in c.keywords}
                    if kw.get("save_on_creation") != "False":
                        bad.append((c, "self.create_entity(...) without save_on_creation=False"))
            elif unparse(f).startswith("H5Writer."):
                bad.append((c, unparse(f)))
        res.inst(f"Workspace.{nm}: on the load path, no persisting call", nontrivial=True, ok=not bad)
        for c, what in bad:
            res.find("Workspace", nm, f"persisting call on the load path: {what}", f"{fn.module.relpath}:{c.lineno}",
                     f"{what} runs while a file is being opened: opening in read-only mode (or a read-only fallback) fails or the file is "
                     "modified by merely opening it")
    # constructors run on the load path too: the entity is not on file yet, but its (shared) TYPE is as soon as a first
    # instance has been loaded — an unconditional assignment to a type attribute writes for every further instance
    ent = p.cls("Entity")
    for K in p.subclasses(ent):
        init = K.methods.get("__init__")
        if init is None or K.synthetic:
            continue
        sn = init.self_name or "self"

        def walk(stmts, guarded):
            for st in stmts:
                if isinstance(st, ast.If):
                    walk(st.body, True)
                    walk(st.orelse, True)
                elif isinstance(st, (ast.For, ast.While, ast.With, ast.Try)):
                    for fld in ("body", "orelse", "finalbody"):
                        walk(getattr(st, fld, []) or [], guarded)
                    for h in getattr(st, "handlers", []):
                        walk(h.body, guarded)
                elif isinstance(st, ast.Assign):
                    for t in st.targets:
                        if isinstance(t, ast.Attribute) and unparse(t.value) == f"{sn}.entity_type" and not t.attr.startswith("_"):
                            res.inst(f"{K.name}.__init__:{st.lineno} {unparse(t)} = ... conditional on the current state: {guarded}", nontrivial=True, ok=guarded)
                            if not guarded:
                                res.find(K.name, "__init__", f"unconditional {unparse(t)} = {unparse(st.value)[:30]}", f"{init.module.relpath}:{st.lineno}",
                                         f"the constructor also runs when entities are loaded; the type is shared and already on file from the second {K.name} on, so "
                                         "this assignment is a write: a file with two such objects cannot be opened read-only, and opening it writable rewrites the type")

        walk(init.node.body, False)
    return res


def rule_rebuild(ctx) -> RuleResult:
    res = RuleResult(
        "C19.REBUILD",
        "C19",
        "when the Root link is missing, every recovered entity ends up under the parent the file records for it: either "
        "the rebuild loads entities parent-first / passes the recorded parent, or fetch_children re-attaches an entity it "
        "finds already registered under another parent",
        floor=1,
    )
    p = ctx.p
    fr = p.func("Workspace.fetch_or_create_root")
    fc = p.func("Workspace.fetch_children")
    loops = [lp for lp in ast.walk(fr.node) if isinstance(lp, ast.For) and any(isinstance(c, ast.Call) and getattr(c.func, "attr", None) == "load_entity" for c in ast.walk(lp))]
    if not loops:
        raise AnalysisError("Workspace.fetch_or_create_root: recovery loop not found")
    flat_order = False
    for lp in loops:
        for c in ast.walk(lp):
            if isinstance(c, ast.Call) and getattr(c.func, "attr", None) == "load_entity":
                has_parent = any(k.arg == "parent" for k in c.keywords) or len(c.args) > 2
                if not has_parent:
                    flat_order = True
    # does fetch_children re-attach a child that is already registered?
    var = None
    for a in ast.walk(fc.node):
        if isinstance(a, ast.Assign) and isinstance(a.value, ast.Subscript) and isinstance(a.value.value, ast.Call) and getattr(a.value.value.func, "attr", None) == "get_entity":
            var = a.targets[0].id
    if var is None:
        raise AnalysisError("Workspace.fetch_children: lookup of already registered children not found")
    ent = fc.params[1]
    reattach = any(
        (isinstance(n, ast.Assign) and any(unparse(t) in (f"{var}.parent", f"{var}._parent") for t in n.targets))
        or (isinstance(n, ast.Call) and getattr(n.func, "attr", None) == "add_children" and unparse(n.func.value) == ent)
        for n in ast.walk(fc.node))
    ok = (not flat_order) or reattach
    res.inst("root rebuild: recovered entities end under their recorded parent (parent-first order, explicit parent, or re-attachment in fetch_children)",
             nontrivial=True, ok=ok)
    if not ok:
        res.find("Workspace", "fetch_or_create_root", "entities are recovered in flat-container order under the new root and never re-attached", fr.where,
                 "a nested group / object whose uid sorts before its parent's is loaded first, attached to the rebuilt root, and stays there when its "
                 "parent is read later (fetch_children does not re-attach registered entities): the hierarchy of entities the Root link does not describe is altered")
    return res


RULES = [rule_guard, rule_scope, rule_load, rule_rebuild]
