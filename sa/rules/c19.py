"""C19 — the reader tolerates missing optional content (guard lint).

The rules look at NORMALISED code (ctx.view: private helpers expanded in place, hoisted literals substituted) and compare
ALIAS-EXPANDED expressions (temporaries such as `project = h5file[name]`, `uid_str = as_str_if_uuid(uid)` undone), so that a
verdict depends on what is looked up under which guard, not on how the lookup is spelled or where it lives."""

from __future__ import annotations

import ast

from ..cfg import CFG, forward
from ..kinds import tv
from ..model import AnalysisError, unparse
from ..report import RuleResult
from ..roles import bound_from, calls, const_values
from ._c19_lib import (
    CATCHES,  # noqa: F401  (re-exported)
    Alias,
    bound_by,
    facts_of,
    guard_regions,
    guarded_ids,
    handle_expr,
    inner_facts,
    denotes_kind_selector,
    denotes_project_group,
    is_materialisation,
    stored_before,
    is_project_group,
    node_exprs,
    reader_units,
    root_names,
    record_root,
    stores_of,
    strip_view,
    substitutes,
    tainted_names,
)

FLAT_CONTAINERS = ("Data", "Groups", "Objects", "Types")


def _in_guarded_try(fn, node) -> bool:
    """node sits in code whose KeyError is absorbed (try/except KeyError or wider, `with suppress(KeyError)`)."""
    return any(node is y for _, body in guard_regions(fn.node) for s in body for y in ast.walk(s))


def _func_name(call) -> str | None:
    f = call.func
    return f.attr if isinstance(f, ast.Attribute) else getattr(f, "id", None)


def _none_facts(names) -> dict:
    facts = {}
    for nm in names:
        facts["notnone:" + nm] = False
        facts["truthy:" + nm] = False
    return facts


def _reach_when_none(fn_node, names, avoid=lambda n: False):
    """(cfg, nodes reachable from the entry when every name of `names` is None): branches whose (alias-expanded) test is
    decided by that are pruned."""
    g = CFG(fn_node)
    al = Alias(fn_node, keep=names)
    facts = _none_facts(names)
    seen, work = set(), [g.entry]
    while work:
        n = work.pop()
        if n in seen or avoid(n):
            continue
        seen.add(n)
        succ = n.succ
        if n.kind == "test" and n.ast is not None:
            t = al.x(n.ast)
            vals = {tv(t, nm, facts) for nm in names} - {None}
            if vals == {True}:
                succ = [(m, lab) for m, lab in succ if lab != "false"]
            elif vals == {False}:
                succ = [(m, lab) for m, lab in succ if lab != "true"]
        work.extend(m for m, _ in succ)
    return g, seen


def _flow_facts(g, al) -> dict:
    """CFG node -> facts that hold before it on every path: membership / equality tests passed (alias-expanded), items the
    function stored into its own dictionaries; a fact dies when a name it mentions is rebound."""
    def transfer(node, st):
        killed = bound_by(node)
        if killed:
            st = frozenset(f for f in st if not (f[3] & killed))
        if node.kind in ("test", "assert") and node.ast is not None:
            t = al.x(node.ast)
            return {"true": st | frozenset(facts_of(t, True)), "false": st | frozenset(facts_of(t, False)), None: st}
        if node.kind == "stmt" and node.ast is not None:
            st = st | frozenset(("stored", k, nm, frozenset([nm])) for nm, k in stores_of(node.ast) if nm not in killed)
        return st

    return forward(g, frozenset(), transfer, lambda a, b: a & b)


def rule_guard(ctx) -> RuleResult:
    res = RuleResult(
        "C19.GUARD",
        "C19",
        "every subscript of (possibly missing) file content in H5Reader is guarded — inside try/except KeyError, "
        "dominated by an `in` test of the same key on the same node, or replaced by .get — except the mandatory "
        "containers (project group, flat containers, the type node in fetch_type)",
        floor=25,
    )
    p = ctx.p
    n_guard = {"try": 0, "in": 0, "get": 0, "mandatory": 0}
    for name, fn, by_callers, handles, roles in reader_units(ctx):
        tainted = tainted_names(fn, handles)
        if not tainted:
            continue
        al = Alias(fn.node)
        roots = root_names(fn, tainted)
        in_try = guarded_ids(fn.node)
        g = CFG(fn.node)

        IN = _flow_facts(g, al)
        for node in g.nodes:
            subs = [(e, x) for e in node_exprs(node) for x in ast.walk(e) if isinstance(x, ast.Subscript)]
            for host, x in subs:
                if not isinstance(x.ctx, ast.Load) or not handle_expr(x.value, tainted):
                    continue
                if is_materialisation(x):
                    continue  # materialisation of a dataset that was already reached
                if isinstance(x.value, ast.Name) and ("stored", unparse(x.slice), x.value.id, frozenset([x.value.id])) in IN.get(node, frozenset()):
                    continue  # an item the function itself put into its own copy, on every path to here
                key, base = unparse(x.slice), unparse(x.value)
                where = f"{fn.module.relpath}:{x.lineno}"
                if id(x) in in_try or by_callers:
                    n_guard["try"] += 1
                    res.inst(f"H5Reader.{name}:{x.lineno} {base}[{key}] in try/except KeyError", nontrivial=True)
                    continue
                xe = al.x(x)
                key_x, base_x = unparse(xe.slice), unparse(xe.value)
                facts = IN.get(node, frozenset()) | inner_facts(host, x, al.x)
                if any(f[0] == "in" and f[1] == key_x and f[2] == base_x for f in facts):
                    n_guard["in"] += 1
                    res.inst(f"H5Reader.{name}:{x.lineno} {base}[{key}] dominated by `{key} in {base}`", nontrivial=True)
                    continue
                known = [f[2] for f in facts if f[0] == "==" and f[1] == key_x]
                flat = denotes_kind_selector(xe.slice, fn, roles) and denotes_project_group(xe.value, roots, roles) and all(k in FLAT_CONTAINERS for k in known)
                mandatory = (
                    is_project_group(xe, roots)  # project group
                    or flat  # flat container chosen by kind (not the optional Root link)
                    or (name == "fetch_type")  # a missing type node may raise (mandatory item)
                )
                if mandatory:
                    n_guard["mandatory"] += 1
                    res.inst(f"H5Reader.{name}:{x.lineno} {base}[{key}] mandatory container (may raise)")
                    continue
                res.inst(f"H5Reader.{name}:{x.lineno} {base}[{key}] UNGUARDED", ok=False)
                res.find("H5Reader", name, f"unguarded access {base}[{key}]", where,
                         f"{base}[{key}] is read without an `in` test, .get or except KeyError: a file that lacks this optional "
                         "item cannot be opened (KeyError) although every other entity is intact")
        for x in ast.walk(fn.node):
            if isinstance(x, ast.Call) and isinstance(x.func, ast.Attribute) and x.func.attr == "get" and handle_expr(x.func.value, tainted):
                n_guard["get"] += 1
                res.inst(f"H5Reader.{name}:{x.lineno} {unparse(x)[:50]} (.get)")
    res.notes.append(f"guard constructs: {n_guard}")
    # Workspace side: with the Root link missing (the root loads as None) every normal path rebuilds a root group
    fr = ctx.view("Workspace.fetch_or_create_root")
    root_l = set(bound_from(fr.node, lambda e: any(
        isinstance(c, ast.Call) and _func_name(c) == "load_entity"
        and any(isinstance(a, ast.Constant) and a.value == "root" for a in list(c.args) + [k.value for k in c.keywords])
        for c in ast.walk(e))))

    def rebuilds_root(n):
        return any(isinstance(c, ast.Call) and (
            (_func_name(c) == "create_entity" and any(isinstance(a, ast.Name) and a.id == "RootGroup" for a in ast.walk(c)))
            or (isinstance(c.func, ast.Name) and c.func.id == "RootGroup")) for e in node_exprs(n) for c in ast.walk(e))

    ok = False
    if root_l:
        g, seen = _reach_when_none(fr.node, root_l)
        g2, seen2 = _reach_when_none(fr.node, root_l, avoid=rebuilds_root)
        ok = any(rebuilds_root(n) for n in seen) and g2.exit not in seen2
    res.inst("Workspace.fetch_or_create_root: missing Root link -> a root group is rebuilt", nontrivial=True, ok=ok)
    if not ok:
        res.find("Workspace", "fetch_or_create_root", "no branch rebuilding the root when the Root link is missing", fr.where,
                 "a file without the (optional) Root link cannot be opened")
    # a dangling link (the node's attributes read as None): the entity is left out — nothing is built from the missing record
    le = ctx.view("Workspace.load_entity")
    attrs_l = set(bound_from(le.node, lambda e: calls(e, "fetch_attributes") or "fetch_attributes" in unparse(e)))
    ok = False
    if attrs_l:
        g, seen = _reach_when_none(le.node, attrs_l)
        al = Alias(le.node)
        record = set(attrs_l) | {al.text(ast.Name(id=nm, ctx=ast.Load())) for nm in attrs_l}

        def uses_record(n):
            for e in node_exprs(n):
                for c in ast.walk(e):
                    if isinstance(c, ast.Call) and _func_name(c) == "create_entity":
                        return True
                    if isinstance(c, (ast.Subscript, ast.Starred, ast.Attribute)) and al.text(strip_view(c.value)) in record:
                        return True
                if isinstance(e, ast.Assign) and isinstance(e.targets[0], (ast.Tuple, ast.List)) and isinstance(e.value, ast.Name) and e.value.id in attrs_l:
                    return True
            return False

        ok = g.exit in seen and not any(uses_record(n) for n in seen)
    res.inst("Workspace.load_entity: missing node -> None (entity left out)", nontrivial=True, ok=ok)
    if not ok:
        res.find("Workspace", "load_entity", "no `attributes is None` early return", le.where,
                 "a dangling child link makes the whole load fail instead of leaving that entity out")
    return res


def rule_scope(ctx) -> RuleResult:
    res = RuleResult(
        "C19.SCOPE",
        "C19",
        "inside H5Reader, a loop over several items of the file that sits in a try/except KeyError (handler outside the "
        "loop) performs no lookup that can itself be missing — only `handle[k]` with k iterated from that same handle — "
        "unless the lookup has its own guard inside the loop: otherwise one missing optional item silently drops all the "
        "items after it",
        floor=3,
    )
    for name, fn, by_callers, handles, _roles in reader_units(ctx):
        tainted = tainted_names(fn, handles)
        if not tainted:
            continue
        al = Alias(fn.node)
        stored = stored_before(fn.node)
        seen_loops = set()
        regions = guard_regions(fn.node)
        if by_callers:
            # a helper that could not be expanded (a generator, ...) and runs only inside its callers' guards: its whole body
            # is guarded from outside
            regions = [(fn.node, fn.node.body)] + regions
        for _owner, region in regions:
            loops = [lp for s in region for lp in ast.walk(s) if isinstance(lp, (ast.For, ast.ListComp, ast.SetComp, ast.DictComp, ast.GeneratorExp))]
            for lp in loops:
                if id(lp) in seen_loops:
                    continue  # nested guard regions: the same loop once
                seen_loops.add(id(lp))
                if isinstance(lp, ast.For) and isinstance(lp.body[-1], (ast.Return, ast.Raise, ast.Break)):
                    continue  # the body always leaves at its first item: no later item can be dropped
                if isinstance(lp, ast.For):
                    body_nodes = [x for s in lp.body for x in ast.walk(s)]
                    iters = [(lp.target, lp.iter)]
                else:
                    body_nodes = [x for part in ([lp.elt] if hasattr(lp, "elt") else [lp.key, lp.value]) for x in ast.walk(part)]
                    body_nodes += [x for gen in lp.generators for c in gen.ifs for x in ast.walk(c)]
                    iters = [(gen.target, gen.iter) for gen in lp.generators]
                own = set()  # (handle text, key name): keys drawn from the handle itself
                for tg, it in iters:
                    base = it.func.value if isinstance(it, ast.Call) and isinstance(it.func, ast.Attribute) and it.func.attr in ("keys", "items") else strip_view(it)
                    names = [x.id for x in ast.walk(tg) if isinstance(x, ast.Name)]
                    if names:
                        own.add((al.text(base), names[0]))
                inner_guarded = {id(y) for x in body_nodes if isinstance(x, (ast.Try, ast.With)) for _o, b in guard_regions(x) for s in b for y in ast.walk(s)}
                in_tests = set()
                for x in body_nodes:
                    tests = [x.test] if isinstance(x, (ast.If, ast.IfExp)) else (list(x.ifs) if isinstance(x, ast.comprehension) else [])
                    for t in tests:
                        for f in facts_of(al.x(t), True):
                            if f[0] == "in":
                                in_tests.add((f[1], f[2]))
                if not isinstance(lp, ast.For):
                    for gen in lp.generators:
                        for t in gen.ifs:
                            for f in facts_of(al.x(t), True):
                                if f[0] == "in":
                                    in_tests.add((f[1], f[2]))
                bad = []
                n_sub = 0
                for x in body_nodes:
                    if not (isinstance(x, ast.Subscript) and isinstance(x.ctx, ast.Load) and handle_expr(x.value, tainted)):
                        continue
                    if is_materialisation(x) or id(x) in stored:
                        continue
                    n_sub += 1
                    xe = al.x(x)
                    key_x, base_x = unparse(xe.slice), unparse(xe.value)
                    if (base_x, key_x) in own or (unparse(x.value), unparse(x.slice)) in own or id(x) in inner_guarded or (key_x, base_x) in in_tests:
                        continue
                    bad.append(x)
                res.inst(f"H5Reader.{name}:{lp.lineno} loop inside try/except: {n_sub} lookups, all on the handle's own keys or guarded per item", nontrivial=True, ok=not bad)
                for x in bad[:2]:
                    res.find("H5Reader", name, f"per-item lookup {unparse(x)[:40]} inside a loop guarded only from outside", f"{fn.module.relpath}:{x.lineno}",
                             f"when `{unparse(x)[:40]}` is missing for one item the KeyError leaves the whole loop: every item after it is silently dropped "
                             "although nothing describing those items is missing")
    return res


PERSISTING = {"save_entity", "save_entity_type", "update_attribute", "finalize", "add_or_update_property_group", "remove_entity", "remove_children"}


def _terminates(stmts) -> bool:
    return bool(stmts) and isinstance(stmts[-1], (ast.Return, ast.Raise, ast.Continue, ast.Break))


def _load_path(ctx):
    """({method name: normalised FuncInfo} of Workspace.open and the Workspace methods it reaches, receivers(fn), constructor names)"""
    p = ctx.p
    W = p.cls("Workspace")
    start = W.methods.get("open")
    if start is None:
        raise AnalysisError("anchor Workspace.open not found")
    seen, work = {}, [start]
    CONSTRUCTORS = {"create_entity", "create_data", "create_object_or_group", "create_from_concatenation"}
    SKIP = PERSISTING | CONSTRUCTORS | {"_io_call", "close"}

    def receivers(fn):
        """names that are the workspace itself: `self` and single-assignment aliases of it"""
        sn = fn.self_name or "self"
        return {sn} | {k for k, v in Alias(fn.node).defs.items() if isinstance(v, ast.Name) and v.id == sn}

    while work:
        fn = work.pop()
        if fn.name in seen:
            continue
        fn = ctx.view(fn)  # private helpers (also module-level ones) expanded: their calls count where they run
        seen[fn.name] = fn
        recv = receivers(fn)
        for c in ast.walk(fn.node):
            # `self.m(...)`, and `self.m` handed on or aliased (`load = self.load_entity`)
            if isinstance(c, ast.Attribute) and isinstance(c.value, ast.Name) and c.value.id in recv and isinstance(c.ctx, ast.Load):
                m = W.lookup(c.attr)
                if m and m[1] == "method" and c.attr not in SKIP:
                    work.append(m[2])
    return seen, receivers, CONSTRUCTORS


def _persisting_setters(ctx) -> dict:
    """property name -> ['Class.name', ...] of the properties (of the package's classes) whose setter writes to the file:
    a persisting call in its (normalised) body, or a store through another such property of the same object"""
    if "c19.setters" in ctx.cache:
        return ctx.cache["c19.setters"]
    p = ctx.p
    props = []
    for mod in p.modules.values():
        if not mod.in_scope:
            continue
        for ci in mod.classes.values():
            for name, pr in ci.props.items():
                if pr.setter is not None and pr.setter.cls is ci:
                    props.append((ci, name, ctx.view(pr.setter)))
    out: dict = {}

    def direct(fn):
        for c in ast.walk(fn.node):
            if isinstance(c, ast.Call):
                nm = _func_name(c)
                if nm in PERSISTING and isinstance(c.func, ast.Attribute):
                    return True
                if nm == "_io_call" and c.args and unparse(c.args[0]).startswith("H5Writer"):
                    return True
        return False

    for ci, name, fn in props:
        if direct(fn):
            out.setdefault(name, []).append(f"{ci.name}.{name}")
    for _round in range(2):  # `self.q = v` inside a setter, q persisting in the same class hierarchy
        for ci, name, fn in props:
            if f"{ci.name}.{name}" in out.get(name, []):
                continue
            sn = fn.self_name or "self"
            for st in ast.walk(fn.node):
                if isinstance(st, ast.Assign):
                    for t in st.targets:
                        if isinstance(t, ast.Attribute) and isinstance(t.value, ast.Name) and t.value.id == sn and t.attr != name:
                            m = ci.lookup(t.attr)
                            if m and m[1] == "prop" and f"{m[0].name}.{t.attr}" in out.get(t.attr, []):
                                out.setdefault(name, []).append(f"{ci.name}.{name}")
    ctx.cache["c19.setters"] = out
    return out


def rule_load(ctx, rule_id="C19.LOAD", prop="C19") -> RuleResult:
    res = RuleResult(
        rule_id,
        prop,
        "the load path (Workspace.open and every Workspace method it reaches through self.<method>) makes no "
        "persisting call: no save_entity / update_attribute / H5Writer call, and entities it constructs are created "
        "with save_on_creation=False; constructors (which also run while loading) assign type attributes only "
        "conditionally — opening a file (also one that lacks the Root link) needs no write access and writes nothing",
        floor=5,
    )
    p = ctx.p
    seen, receivers, CONSTRUCTORS = _load_path(ctx)
    for nm, fn in sorted(seen.items()):
        recv = receivers(fn)
        al = Alias(fn.node)
        bad = []
        for c in ast.walk(fn.node):
            if not isinstance(c, ast.Call):
                continue
            f = al.x(c.func)
            if isinstance(f, ast.Attribute) and isinstance(f.value, ast.Name) and f.value.id in recv:
                if f.attr in PERSISTING:
                    bad.append((c, f"self.{f.attr}(...)"))
                elif f.attr == "_io_call" and c.args and al.text(c.args[0]).startswith("H5Writer"):
                    bad.append((c, f"self._io_call({al.text(c.args[0])}, ...)"))
                elif f.attr in CONSTRUCTORS and f.attr == "create_entity":
                    kw = {k.arg: al.text(k.value) for k in c.keywords}
                    if len(c.args) > 1 and not any(isinstance(a, ast.Starred) for a in c.args[:2]):
                        kw.setdefault("save_on_creation", al.text(c.args[1]))
                    if kw.get("save_on_creation") != "False":
                        bad.append((c, "self.create_entity(...) without save_on_creation=False"))
            elif unparse(f).startswith("H5Writer."):
                bad.append((c, unparse(f)))
        res.inst(f"Workspace.{nm}: on the load path, no persisting call", nontrivial=True, ok=not bad)
        for c, what in bad:
            res.find("Workspace", nm, f"persisting call on the load path: {what}", f"{fn.module.relpath}:{c.lineno}",
                     f"{what} runs while a file is being opened: opening in read-only mode (or a read-only fallback) fails or the file is "
                     "modified by merely opening it")
    # stores through a property whose SETTER persists are persisting calls as well (`child.parent = entity` saves the child)
    setters = _persisting_setters(ctx)
    with_setter = {name for mod in p.modules.values() if mod.in_scope for ci in mod.classes.values() for name, pr in ci.props.items() if pr.setter is not None}
    for nm, fn in sorted(seen.items()):
        recv = receivers(fn)
        tab = p.cls("Workspace").class_assigns
        for st in ast.walk(fn.node):
            names, at = [], st
            if isinstance(st, (ast.Assign, ast.AugAssign, ast.AnnAssign)) and getattr(st, "value", None) is not None:
                tgs = st.targets if isinstance(st, ast.Assign) else [st.target]
                names = [t.attr for t in tgs for t in ([t] if not isinstance(t, (ast.Tuple, ast.List)) else t.elts) if isinstance(t, ast.Attribute)]
            elif isinstance(st, ast.Call) and isinstance(st.func, ast.Name) and st.func.id == "setattr" and len(st.args) == 3:
                k = st.args[1]
                try:
                    cv = const_values(k, fn.node)
                except Exception:  # pragma: no cover
                    cv = None
                if cv:
                    names = [v for v in cv if isinstance(v, str)]
                elif isinstance(k, ast.Subscript) and isinstance(k.value, ast.Attribute) and isinstance(k.value.value, ast.Name) and k.value.value.id in recv \
                        and k.value.attr in tab and isinstance(tab[k.value.attr][0], ast.Dict):
                    # `setattr(self, self.<table>[key], value)`: every name the table can yield
                    names = [v.value for v in tab[k.value.attr][0].values if isinstance(v, ast.Constant) and isinstance(v.value, str)]
                elif not (isinstance(st.args[0], ast.Name) and st.args[0].id in recv):
                    names = sorted(setters)  # a computed name on another object: any setter may be meant
            hit = sorted({o for n_ in names for o in setters.get(n_, [])})
            names = [n_ for n_ in names if n_ in with_setter]  # an obligation only where some property has a setter of that name
            if names:
                res.inst(f"Workspace.{nm}:{at.lineno} store to .{'/.'.join(sorted(set(names)))}: no setter that persists", nontrivial=True, ok=not hit)
            if hit:
                res.find("Workspace", nm, f"store through a setter that persists on the load path: .{hit[0].split('.')[-1]}", f"{fn.module.relpath}:{at.lineno}",
                         f"the setter {hit[0]} writes to the file (it saves / updates / unlinks): assigning through it while a file is being opened makes "
                         "opening need write access — a file that merely lacks its Root link no longer opens read-only, and opening it writable modifies it")
    # the factories of the workspace run on the load path (load_entity -> create_entity -> ...): a type they obtain for the
    # entity under construction is not flagged on_file BEFORE the constructor has run — the constructors complete missing type
    # attributes through setters that write as soon as the type counts as stored
    W = p.cls("Workspace")
    facts_seen, work = {}, [W.methods[n] for n in CONSTRUCTORS if n in W.methods]
    while work:
        f0 = work.pop()
        if f0.name in facts_seen:
            continue
        fn = ctx.view(f0)
        facts_seen[fn.name] = fn
        for c in ast.walk(fn.node):
            if isinstance(c, ast.Attribute) and isinstance(c.value, ast.Name) and c.value.id == (fn.self_name or "self") and c.attr in CONSTRUCTORS and c.attr in W.methods:
                work.append(W.methods[c.attr])
    for nm, fn in sorted(facts_seen.items()):
        types_ = set(bound_from(fn.node, lambda e: isinstance(e, ast.Call) and (_func_name(e) or "").startswith("find_or_create")))
        if not types_:
            continue
        al = Alias(fn.node)
        g = CFG(fn.node)

        def flags(n, types_=types_, al=al):
            """names of types this node flags as stored: `t.on_file = <anything but False>` / setattr(t, 'on_file', ..)"""
            out = set()
            for e in node_exprs(n):
                for st in ast.walk(e):
                    if isinstance(st, ast.Assign) and not (isinstance(st.value, ast.Constant) and st.value.value in (False, None, 0)):
                        for t in st.targets:
                            if isinstance(t, ast.Attribute) and t.attr in ("on_file", "_on_file"):
                                r = al.x(t.value)
                                out |= {x for x in types_ if (isinstance(t.value, ast.Name) and t.value.id == x) or (isinstance(r, ast.Name) and r.id == x)}
                    elif isinstance(st, ast.Call) and isinstance(st.func, ast.Name) and st.func.id == "setattr" and len(st.args) == 3 \
                            and isinstance(st.args[1], ast.Constant) and st.args[1].value in ("on_file", "_on_file") and isinstance(st.args[0], ast.Name) and st.args[0].id in types_:
                        out.add(st.args[0].id)
            return out

        def constructs(n, t):
            """the node builds an entity from type t: t is handed (positionally) to a call that is not a lookup of the type"""
            return any(isinstance(c, ast.Call) and not (_func_name(c) or "").startswith("find_or_create") and _func_name(c) not in ("isinstance", "getattr", "hasattr", "bool")
                       and any(isinstance(a, ast.Name) and a.id == t for a in c.args) for e in node_exprs(n) for c in ast.walk(e))

        for t in sorted(types_):
            builders = [n for n in g.nodes if constructs(n, t)]
            if not builders:
                continue
            early = []
            for n in g.nodes:
                if t in flags(n):
                    seen_n, work_n = set(), [m for m, lab in n.succ if lab not in ("exc", "raise")]
                    while work_n:
                        m = work_n.pop()
                        if m in seen_n:
                            continue
                        seen_n.add(m)
                        work_n.extend(x for x, lab in m.succ if lab not in ("exc", "raise"))
                    if any(b in seen_n for b in builders):
                        early.append(n)
            res.inst(f"Workspace.{nm}: the type obtained for the entity under construction is not flagged on_file before the constructor runs", nontrivial=True, ok=not early)
            for n in early[:1]:
                res.find("Workspace", nm, "the type is flagged on_file before the entity is constructed", f"{fn.module.relpath}:{n.lineno}",
                         "the constructors complete missing type attributes (name, description) through setters that write when the type counts as stored: "
                         "flagged early, a file whose type lacks an optional attribute is written to while it is opened (and does not open read-only)")
    # constructors run on the load path too: the entity is not on file yet, but its (shared) TYPE is as soon as a first
    # instance has been loaded — an unconditional assignment to a type attribute writes for every further instance
    ent = p.cls("Entity")
    for K in p.subclasses(ent):
        init = K.methods.get("__init__")
        if init is None or K.synthetic:
            continue
        init = ctx.view(init)
        sn = init.self_name or "self"
        al = Alias(init.node)

        def walk(stmts, guarded, K=K, init=init, sn=sn, al=al):
            for st in stmts:
                if isinstance(st, ast.If):
                    walk(st.body, True)
                    walk(st.orelse, True)
                    if _terminates(st.body) or _terminates(st.orelse):
                        guarded = True  # guard clause: what follows runs only when the test went the other way
                elif isinstance(st, (ast.For, ast.While, ast.With, ast.Try)):
                    for fld in ("body", "orelse", "finalbody"):
                        walk(getattr(st, fld, []) or [], guarded)
                    for h in getattr(st, "handlers", []):
                        walk(h.body, guarded)
                elif isinstance(st, (ast.Assign, ast.AnnAssign, ast.AugAssign)):
                    tgs = st.targets if isinstance(st, ast.Assign) else [st.target]
                    if getattr(st, "value", None) is None:
                        continue
                    for t in tgs:
                        if isinstance(t, ast.Attribute) and al.text(t.value) == f"{sn}.entity_type" and not t.attr.startswith("_"):
                            shown = f"{sn}.entity_type.{t.attr}"
                            res.inst(f"{K.name}.__init__:{st.lineno} {shown} = ... conditional on the current state: {guarded}", nontrivial=True, ok=guarded)
                            if not guarded:
                                res.find(K.name, "__init__", f"unconditional {shown} = {unparse(st.value)[:30]}", f"{init.module.relpath}:{st.lineno}",
                                         f"the constructor also runs when entities are loaded; the type is shared and already on file from the second {K.name} on, so "
                                         "this assignment is a write: a file with two such objects cannot be opened read-only, and opening it writable rewrites the type")

        walk(init.node.body, False)
    return res


def rule_rebuild(ctx) -> RuleResult:
    res = RuleResult(
        "C19.REBUILD",
        "C19",
        "when the Root link is missing, every recovered entity ends up under the parent the file records for it: either "
        "the rebuild loads entities parent-first / passes the recorded parent, or fetch_children re-attaches an entity it "
        "finds already registered under another parent",
        floor=1,
    )
    p = ctx.p
    W = p.cls("Workspace")
    fr = p.func("Workspace.fetch_or_create_root")
    fc = ctx.view("Workspace.fetch_children")
    # the recovery loop: a loop (or comprehension) that loads entities — in fetch_or_create_root itself, in a helper expanded
    # into it, or in a method of the workspace it hands the recovery to
    LOOPS = (ast.For, ast.While, ast.ListComp, ast.SetComp, ast.DictComp, ast.GeneratorExp)
    STOP = {"load_entity", "fetch_children", "create_entity", "get_entity", "_io_call"}

    def loads(n, al):
        return isinstance(n, ast.Call) and isinstance(al.x(n.func), (ast.Attribute, ast.Name)) and _func_name(ast.Call(func=al.x(n.func), args=[], keywords=[])) == "load_entity"

    loops, seen, work = [], set(), [(fr, 0)]
    while work:
        fn, depth = work.pop()
        if fn.name in seen:
            continue
        seen.add(fn.name)
        v = ctx.view(fn)
        al = Alias(v.node)
        loops += [(lp, al) for lp in ast.walk(v.node) if isinstance(lp, LOOPS) and any(loads(c, al) for c in ast.walk(lp))]
        sn = v.self_name or "self"
        if depth < 2:
            for c in ast.walk(v.node):
                if isinstance(c, ast.Attribute) and isinstance(c.ctx, ast.Load) and isinstance(c.value, ast.Name) and c.value.id == sn and c.attr not in STOP:
                    m = W.lookup(c.attr)
                    if m and m[1] == "method":
                        work.append((m[2], depth + 1))
    if not loops:
        raise AnalysisError("Workspace.fetch_or_create_root: recovery loop not found")
    flat_order = False
    for lp, al in loops:
        for c in ast.walk(lp):
            if loads(c, al):
                has_parent = any(k.arg == "parent" for k in c.keywords) or len(c.args) > 2
                if not has_parent:
                    flat_order = True
    # does fetch_children re-attach a child that is already registered?  (fetch_children itself, or the helper / generator of
    # the workspace it hands the children to)
    parts, seen_c, work = [], set(), [(fc, 0)]
    while work:
        fn, depth = work.pop()
        if fn.name in seen_c:
            continue
        seen_c.add(fn.name)
        v = fn if fn is fc else ctx.view(fn)
        parts.append(v)
        sn = v.self_name or "self"
        if depth < 2:
            for c in ast.walk(v.node):
                if isinstance(c, ast.Attribute) and isinstance(c.ctx, ast.Load) and isinstance(c.value, ast.Name) and c.value.id == sn and c.attr not in STOP:
                    m = W.lookup(c.attr)
                    if m and m[1] == "method":
                        work.append((m[2], depth + 1))
    found_any, reattach = False, False
    for v in parts:
        al = Alias(v.node)
        found = set()
        for a in ast.walk(v.node):
            if isinstance(a, (ast.Assign, ast.AnnAssign, ast.NamedExpr)) and getattr(a, "value", None) is not None:
                x = al.x(a.value)
                if isinstance(x, ast.Subscript) and isinstance(x.value, ast.Call) and _func_name(x.value) == "get_entity":
                    tgs = a.targets if isinstance(a, ast.Assign) else [a.target]
                    found |= {t.id for t in tgs if isinstance(t, ast.Name)}
        if not found:
            continue
        found_any = True
        prms = set(v.params[1:])
        reattach = reattach or any(
            (isinstance(n, ast.Assign) and any(isinstance(t, ast.Attribute) and t.attr in ("parent", "_parent") and isinstance(t.value, ast.Name) and t.value.id in found for t in n.targets))
            or (isinstance(n, ast.Call) and _func_name(n) == "add_children" and isinstance(n.func, ast.Attribute) and al.text(n.func.value) in prms)
            for n in ast.walk(v.node))
    if not found_any:
        raise AnalysisError("Workspace.fetch_children: lookup of already registered children not found")
    ok = (not flat_order) or reattach
    res.inst("root rebuild: recovered entities end under their recorded parent (parent-first order, explicit parent, or re-attachment in fetch_children)",
             nontrivial=True, ok=ok)
    if not ok:
        res.find("Workspace", "fetch_or_create_root", "entities are recovered in flat-container order under the new root and never re-attached", fr.where,
                 "a nested group / object whose uid sorts before its parent's is loaded first, attached to the rebuilt root, and stays there when its "
                 "parent is read later (fetch_children does not re-attach registered entities): the hierarchy of entities the Root link does not describe is altered")
    return res


def rule_default(ctx) -> RuleResult:
    res = RuleResult(
        "C19.DEFAULT",
        "C19",
        "a record read from the file (on the load path of Workspace: what self._io_call(H5Reader.<fetch>) returns; in H5Reader: "
        "a node, its attribute set or a copy of them) is never completed with a LITERAL value for an item the file lacks — no "
        "setdefault(key, literal), no `if key not in record: record[key] = literal`, no literal dictionary merged under the "
        "record: a missing optional attribute leaves the default of the class in place instead of steering the reader "
        "down another path",
        floor=5,
    )
    seen, _receivers, _ = _load_path(ctx)

    W = ctx.p.cls("Workspace")
    memo: dict = {}

    def io_read(e, al, depth=0) -> bool:
        """e reads a record of the file: `self._io_call(H5Reader.<fetch>, ...)`, or a method of the workspace that returns one"""
        if not isinstance(e, ast.Call):
            return False
        if _func_name(e) == "_io_call":
            return bool(e.args) and al.text(e.args[0]).startswith("H5Reader")
        f = al.x(e.func)
        if isinstance(f, ast.Attribute) and isinstance(f.value, ast.Name) and f.value.id in ("self", "cls") and depth < 3:
            m = W.lookup(f.attr)
            if m and m[1] == "method":
                return returns_record(m[2], depth + 1)
        return False

    def records_of(fn, depth=0) -> set:
        """locals of fn that hold (part of) a record read from the file: bound from a read, aliases, unpacked fields, items iterated"""
        al0 = Alias(fn.node)
        recs = set(bound_from(fn.node, lambda e: any(io_read(c, al0, depth) for c in ast.walk(e))))
        changed = True
        while changed:
            changed = False
            for n in ast.walk(fn.node):
                src, tgt = None, None
                if isinstance(n, ast.Assign) and isinstance(n.targets[0], (ast.Tuple, ast.List, ast.Name)):
                    src, tgt = n.value, n.targets[0]
                elif isinstance(n, ast.AnnAssign) and n.value is not None and isinstance(n.target, ast.Name):
                    src, tgt = n.value, n.target
                elif isinstance(n, ast.NamedExpr):
                    src, tgt = n.value, n.target
                elif isinstance(n, (ast.For, ast.comprehension)):
                    src, tgt = n.iter, n.target
                if src is None:
                    continue
                r = record_root(strip_view(src.func.value if isinstance(src, ast.Call) and isinstance(src.func, ast.Attribute) and src.func.attr in ("items", "values") else src))
                if (isinstance(r, ast.Name) and r.id in recs) or io_read(r, al0, depth):
                    for t in ast.walk(tgt):
                        if isinstance(t, ast.Name) and t.id not in recs:
                            recs.add(t.id)
                            changed = True
        return recs

    def returns_record(m, depth) -> bool:
        if id(m.node) in memo:
            return memo[id(m.node)]
        memo[id(m.node)] = False  # recursion guard
        v = ctx.view(m)
        al = Alias(v.node)
        recs = records_of(v, depth)
        out = False
        for r in ast.walk(v.node):
            if isinstance(r, ast.Return) and r.value is not None:
                for cand in (r.value, al.x(r.value)):
                    root = record_root(cand)
                    if (isinstance(root, ast.Name) and root.id in recs) or io_read(root, al, depth):
                        out = True
        memo[id(m.node)] = out
        return out

    def check(owner, name, fn, is_record_of):
        al = Alias(fn.node)
        g = CFG(fn.node)
        IN = _flow_facts(g, al)
        stmt_facts = [(n.ast, IN.get(n, frozenset())) for n in g.nodes if n.kind == "stmt" and n.ast is not None]
        subs = substitutes(fn.node, is_record_of(al), al, stmt_facts)
        res.inst(f"{owner}.{name}: no literal substitute for an item missing from a record of the file", nontrivial=True, ok=not subs)
        for n, what in subs:
            res.find(owner, name, f"literal substitute for a missing item: {what}", f"{fn.module.relpath}:{n.lineno}",
                     f"{what}: when the file lacks this (optional) item the reader does not fall back on the default of the class but on this "
                     "literal — entities that the missing item does not describe are then read differently (e.g. a project without 'Version' "
                     "read down the 1.x path)")

    for nm, fn in sorted(seen.items()):
        recs = records_of(fn)

        def is_record_of(al, recs=recs):
            def is_record(e):
                for cand in (e, al.x(e)):
                    r = record_root(cand)
                    if (isinstance(r, ast.Name) and r.id in recs) or io_read(r, al):
                        return True
                return False
            return is_record

        check("Workspace", nm, fn, is_record_of)
    for name, fn, _by, handles, _roles in reader_units(ctx):
        tainted = tainted_names(fn, handles)
        if not tainted:
            continue
        check("H5Reader", name, fn, lambda al, tainted=tainted: (lambda e: handle_expr(e, tainted)))
    return res


def rule_element(ctx) -> RuleResult:
    res = RuleResult(
        "C19.ELEMENT",
        "C19",
        "on the load path of Workspace, in a loop that loads the elements listed in the file one by one (the result of "
        "load_entity bound per element; the loop may live in a helper or in a generator feeding another loop), an element "
        "that cannot be loaded (None) skips that element only: from the load, with the element None, no path leaves the "
        "loop — no return (end of a generator), no break — before the next element is taken; raising is allowed",
        floor=1,
    )
    seen, _receivers, _ = _load_path(ctx)
    for nm, fn in sorted(seen.items()):
        al0 = Alias(fn.node)
        parent = {}
        for x in ast.walk(fn.node):
            for c in ast.iter_child_nodes(x):
                parent[id(c)] = x

        def loop_of(x):
            while id(x) in parent:
                x = parent[id(x)]
                if isinstance(x, (ast.For, ast.While)):
                    return x
                if isinstance(x, (ast.FunctionDef, ast.Lambda)) and x is not fn.node:
                    return None
            return None

        def is_load(e):
            f = al0.x(e.func) if isinstance(e, ast.Call) else None
            return isinstance(f, (ast.Attribute, ast.Name)) and (f.attr if isinstance(f, ast.Attribute) else f.id) == "load_entity"

        per_loop: dict = {}
        for a in ast.walk(fn.node):
            if isinstance(a, (ast.Assign, ast.AnnAssign, ast.NamedExpr)) and getattr(a, "value", None) is not None and is_load(a.value):
                tgs = a.targets if isinstance(a, ast.Assign) else [a.target]
                names = {t.id for t in tgs if isinstance(t, ast.Name)}
                lp = loop_of(a)
                if names and isinstance(lp, ast.For):
                    per_loop.setdefault(id(lp), (lp, [], set()))
                    per_loop[id(lp)][1].append(a)
                    per_loop[id(lp)][2].update(names)
        if not per_loop:
            continue
        g = CFG(fn.node)
        for lp, binds, names in per_loop.values():
            al = Alias(fn.node, keep=names)
            facts = _none_facts(names)
            head = next((n for n in g.nodes if n.kind == "fornext" and n.stmt is lp), None)
            starts = [n for n in g.nodes if n.ast is not None and not isinstance(n.ast, list)
                      and any(b is y for b in binds for e in node_exprs(n) for y in ast.walk(e))]
            if head is None or not starts:
                raise AnalysisError(f"Workspace.{nm}: loop loading elements not found in the flow graph")
            reached, work = set(), [m for n in starts for m, lab in n.succ if lab not in ("exc", "raise")]
            while work:
                n = work.pop()
                if n in reached or n is head:
                    continue
                reached.add(n)
                if n.kind in ("return", "raise") or n in (g.exit, g.rexit) or (n.kind == "break" and loop_of(n.stmt) is lp):
                    continue
                succ = [(m, lab) for m, lab in n.succ if lab not in ("exc", "raise")]
                if n.kind == "test" and n.ast is not None and not (bound_by(n) & names):
                    t = al.x(n.ast)
                    vals = {tv(t, x, facts) for x in names} - {None}
                    if vals == {True}:
                        succ = [(m, lab) for m, lab in succ if lab != "false"]
                    elif vals == {False}:
                        succ = [(m, lab) for m, lab in succ if lab != "true"]
                if bound_by(n) & names and n not in starts:
                    continue  # the element is bound anew: what follows is judged from that load
                work.extend(m for m, _ in succ)
            leaves = [n for n in reached if n.kind == "return" or n is g.exit or (n.kind == "break" and loop_of(n.stmt) is lp)]
            res.inst(f"Workspace.{nm}:{lp.lineno} loop loading elements: an element that fails to load skips that element only", nontrivial=True, ok=not leaves)
            for n in sorted(leaves, key=lambda n: (n.lineno or 0, n.id))[:1]:
                what = "return" if n.kind == "return" or n is g.exit else "break"
                res.find("Workspace", nm, f"an element that cannot be loaded ends the loop over the elements ({what})", f"{fn.module.relpath}:{n.lineno or lp.lineno}",
                         f"when load_entity returns None for one listed element (its node, type link or a mandatory attribute is missing) the {what} leaves the loop"
                         + (" / ends the generator" if what == "return" else "") + ": every element listed after it — and its sub-tree — is silently left out "
                         "although nothing describing those elements is missing")
    return res


def _chain(e) -> list:
    """the links of a lookup chain, outermost first: [(node, 'hard' | 'soft')] — subscripts raise KeyError, .get / attrs do not"""
    out = []
    while True:
        if isinstance(e, ast.Subscript) and not is_materialisation(e):
            out.append((e, "hard"))
            e = e.value
        elif isinstance(e, ast.Subscript):
            e = e.value
        elif isinstance(e, ast.Call) and isinstance(e.func, ast.Attribute) and e.func.attr == "get":
            out.append((e, "soft"))
            e = e.func.value
        elif isinstance(e, ast.Attribute):
            e = e.value
        else:
            out.append((e, "base"))
            return out


def rule_fallback(ctx) -> RuleResult:
    res = RuleResult(
        "C19.FALLBACK",
        "C19",
        "inside H5Reader, a tolerant read whose absence has a FALLBACK on the same node (`v = <node>...get(k)`, then `if v is None: "
        "v = <node>.get(k')`, or `v = <read> or <other read>`) is tolerant along its whole chain below the node both reads share: "
        "no subscript that can raise KeyError sits in front of it (unless dominated by an `in` test of that key) — otherwise a "
        "missing intermediate container (an empty child container is optional) bypasses the fallback and the value that is "
        "stored one level up is reported as absent",
        floor=0,
    )
    for name, fn, _by, handles, _roles in reader_units(ctx):
        tainted = tainted_names(fn, handles)
        if not tainted:
            continue
        al = Alias(fn.node)
        pairs = []  # (statement of the primary read, primary expr, fallback expr)
        assigns: dict = {}
        for a in ast.walk(fn.node):
            if isinstance(a, ast.Assign) and len(a.targets) == 1 and isinstance(a.targets[0], ast.Name):
                assigns.setdefault(a.targets[0].id, []).append(a)
                v = a.value
                if isinstance(v, ast.BoolOp) and isinstance(v.op, ast.Or) and len(v.values) >= 2:
                    pairs += [(a, v.values[0], f) for f in v.values[1:]]
                if isinstance(v, ast.IfExp) and isinstance(v.test, ast.Compare) and len(v.test.ops) == 1 and isinstance(v.test.ops[0], (ast.Is, ast.IsNot)) \
                        and isinstance(v.test.comparators[0], ast.Constant) and v.test.comparators[0].value is None:
                    # `p if p is not None else f` / `f if p is None else p`: the other branch is the fallback of the read that is tested
                    prim_, fb_ = (v.body, v.orelse) if isinstance(v.test.ops[0], ast.IsNot) else (v.orelse, v.body)
                    if unparse(al.x(v.test.left)) == unparse(al.x(prim_)):
                        pairs.append((a, prim_, fb_))
        for i in ast.walk(fn.node):
            if not isinstance(i, ast.If):
                continue
            for v in {x.id for x in ast.walk(i.test) if isinstance(x, ast.Name)} & set(assigns):
                t = Alias(fn.node, keep={v}).x(i.test)
                val = tv(t, v, _none_facts([v]))
                branch = i.body if val is True else (i.orelse if val is False else [])
                inside = {id(x) for st in branch for x in ast.walk(st)}
                fbs = [a for a in assigns[v] if id(a) in inside]
                for fb in fbs:
                    pairs += [(a, a.value, fb.value) for a in assigns[v] if id(a) not in inside and not (isinstance(a.value, ast.Constant) and a.value.value is None)]
        if not pairs:
            continue
        g = CFG(fn.node)
        IN = _flow_facts(g, al)
        node_of = {}
        for n in g.nodes:
            if n.kind == "stmt" and n.ast is not None:
                node_of[id(n.ast)] = n
        done = set()
        for st, prim, fb in pairs:
            P, F = al.x(prim), al.x(fb)
            cp, cf = _chain(P), _chain(F)
            def tolerant(e):
                c = _chain(e)
                return bool(c) and c[0][1] == "soft" and handle_expr(c[0][0].func.value, tainted)

            if not (tolerant(prim) or tolerant(P)):
                continue  # the primary read is not a .get on a node of the file
            shared = {unparse(e) for e, _k in cf if _k != "base"} | {unparse(cf[-1][0])}
            if not any(unparse(e) in shared for e, _k in cp[1:]):
                continue  # the two reads are not about the same node
            key_ = (id(st), unparse(P), unparse(F))
            if key_ in done:
                continue
            done.add(key_)
            facts = IN.get(node_of.get(id(st)), frozenset()) | inner_facts(st, prim, al.x)
            bad = []
            for e, kind in cp[1:]:
                if unparse(e) in shared:
                    break  # from here down both reads go through the same lookups
                if kind == "hard" and not any(f[0] == "in" and f[1] == unparse(e.slice) and f[2] == unparse(strip_view(e.value)) for f in facts):
                    bad.append(e)
            res.inst(f"H5Reader.{name}:{st.lineno} tolerant read with a fallback on the same node: tolerant along its chain", nontrivial=True, ok=not bad)
            for e in bad[:1]:
                res.find("H5Reader", name, f"a lookup that can raise sits in front of a tolerant read that has a fallback: [{unparse(e.slice)}]", f"{fn.module.relpath}:{st.lineno}",
                         f"when the container [{unparse(e.slice)}] is missing (it may be: an empty child container is optional) the KeyError leaves the block and the "
                         "fallback read one level up is never tried — values that ARE on file are reported as absent and the entities that hold them come back altered")
    return res


def _setattr_on(c, sn) -> bool:
    return isinstance(c, ast.Call) and isinstance(c.func, ast.Name) and c.func.id == "setattr" and len(c.args) == 3 and isinstance(c.args[0], ast.Name) and c.args[0].id == sn


def _setattr_names(c, fn_node, al) -> set:
    """the field names a `setattr(obj, <name>, v)` can store to: the constants the name evaluates to, else the (alias-expanded)
    text of the name expression as a symbolic field"""
    try:
        cv = const_values(c.args[1], fn_node)
    except Exception:  # pragma: no cover
        cv = None
    if cv:
        return {v for v in cv if isinstance(v, str)}
    return {"<" + al.text(c.args[1]) + ">"}


def rule_invent(ctx) -> RuleResult:
    res = RuleResult(
        "C19.INVENT",
        "C19",
        "a lazy getter of an entity that loads its backing field from the file (`self.<field> = self.workspace.fetch_*(...)`, which "
        "the library does only when the entity is on file) does not go on, on the same call with the entity on file, to put a "
        "COMPUTED value into that field behind the file's back — a direct store to the field, or a method of the object that stores "
        "it; content that is stored nowhere stays None (a value regenerated through the property's own persisting setter, i.e. "
        "written back, is outside this clause): dependants sized by the stored content stay readable",
        floor=5,
    )
    p = ctx.p
    setters = _persisting_setters(ctx)
    stores_memo: dict = {}

    def direct_stores(m) -> set:
        """fields of self a method stores directly (in its normalised body)"""
        if id(m.node) not in stores_memo:
            v = ctx.view(m)
            sn = v.self_name or "self"
            stores_memo[id(m.node)] = {t.attr for st in ast.walk(v.node) if isinstance(st, (ast.Assign, ast.AugAssign, ast.AnnAssign))
                                       for t in (st.targets if isinstance(st, ast.Assign) else [st.target])
                                       if isinstance(t, ast.Attribute) and isinstance(t.value, ast.Name) and t.value.id == sn}
        return stores_memo[id(m.node)]

    done = set()
    for K in p.subclasses(p.cls("Entity")):
        if K.synthetic:
            continue
        for name, pr in K.props.items():
            g0 = pr.getter
            if g0 is None or g0.cls is not K or id(g0.node) in done:
                continue
            done.add(id(g0.node))
            fn = ctx.view(g0)
            sn = fn.self_name or "self"
            al = Alias(fn.node)

            def is_fetch(e, sn=sn, al=al):
                return any(isinstance(c, ast.Call) and (_func_name(c) or "").startswith("fetch_") and isinstance(c.func, ast.Attribute)
                           and al.text(c.func.value) in (f"{sn}.workspace", f"{sn}._workspace") for c in ast.walk(e))

            g = CFG(fn.node)
            loads = {}  # cfg node -> fields it fills from the file
            for n in g.nodes:
                if n.kind == "stmt" and isinstance(n.ast, (ast.Assign, ast.AnnAssign)) and getattr(n.ast, "value", None) is not None:
                    tgs = n.ast.targets if isinstance(n.ast, ast.Assign) else [n.ast.target]
                    fl = {t.attr for t in tgs if isinstance(t, ast.Attribute) and isinstance(t.value, ast.Name) and t.value.id == sn}
                    if fl and is_fetch(al.x(n.ast.value)):
                        loads[n] = fl
                elif n.kind == "stmt" and isinstance(n.ast, ast.Expr) and _setattr_on(n.ast.value, sn) and is_fetch(al.x(n.ast.value.args[2])):
                    loads[n] = _setattr_names(n.ast.value, fn.node, al)  # `setattr(self, <computed field name>, <fetch>)`
            if not loads:
                continue
            fields = set().union(*loads.values())
            facts = {f"truthy:{sn}.on_file": True}
            bad = []
            for start in loads:
                seen_n, work = set(), [m for m, lab in start.succ if lab not in ("exc", "raise")]
                while work:
                    n = work.pop()
                    if n in seen_n:
                        continue
                    seen_n.add(n)
                    succ = [(m, lab) for m, lab in n.succ if lab not in ("exc", "raise")]
                    if n.kind == "test" and n.ast is not None:
                        val = tv(al.x(n.ast), sn, facts)
                        if val is True:
                            succ = [(m, lab) for m, lab in succ if lab != "false"]
                        elif val is False:
                            succ = [(m, lab) for m, lab in succ if lab != "true"]
                    work.extend(m for m, _ in succ)
                for n in seen_n:
                    if n in loads or n.kind != "stmt" or n.ast is None:
                        continue
                    st = n.ast
                    if isinstance(st, (ast.Assign, ast.AugAssign, ast.AnnAssign)) and getattr(st, "value", None) is not None:
                        tgs = st.targets if isinstance(st, ast.Assign) else [st.target]
                        for t in tgs:
                            if isinstance(t, ast.Attribute) and isinstance(t.value, ast.Name) and t.value.id == sn and not is_fetch(al.x(st.value)) \
                                    and not (isinstance(st.value, ast.Constant) and st.value.value is None):
                                if t.attr in fields:
                                    bad.append((n, f"{sn}.{t.attr} = <computed>"))
                                else:
                                    m = K.lookup(t.attr)
                                    if m and m[1] == "prop" and m[2].setter is not None and direct_stores(m[2].setter) & fields \
                                            and f"{m[0].name}.{t.attr}" not in setters.get(t.attr, []):
                                        bad.append((n, f"{sn}.{t.attr} = <computed> (setter keeps it in memory only)"))
                    for c in ast.walk(st):
                        if _setattr_on(c, sn) and _setattr_names(c, fn.node, al) & fields and not is_fetch(al.x(c.args[2])) \
                                and not (isinstance(c.args[2], ast.Constant) and c.args[2].value is None):
                            bad.append((n, "setattr(self, <field>, <computed>)"))
                        if isinstance(c, ast.Call) and isinstance(c.func, ast.Attribute) and isinstance(c.func.value, ast.Name) and c.func.value.id == sn:
                            m = K.lookup(c.func.attr)
                            if m and m[1] == "method" and direct_stores(m[2]) & fields:
                                bad.append((n, f"{sn}.{c.func.attr}() stores the field"))
            res.inst(f"{K.name}.{name}: field(s) {sorted(fields)} loaded from the file are not replaced by a computed value on the same call", nontrivial=True, ok=not bad)
            for n, what in sorted(bad, key=lambda b: (b[0].lineno or 0, b[1]))[:1]:
                res.find(K.name, name, f"a computed value replaces content missing from the file: {what.replace(sn + '.', 'self.')}", f"{fn.module.relpath}:{n.lineno}",
                         f"when the entity is on file but this content is not stored, the getter invents it ({what}) and keeps it in memory only: the object no longer "
                         "agrees with the file, and the entities sized by the stored content (cell / vertex data of this object) can no longer be read")
    return res


RULES = [rule_guard, rule_scope, rule_load, rule_rebuild, rule_default, rule_element, rule_fallback, rule_invent]
