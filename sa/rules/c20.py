"""C20 — linked surveys stay mutually consistent (sibling tables, propagation, copy provenance)."""

from __future__ import annotations

import ast

from ..model import AnalysisError, unparse
from ..report import RuleResult


def em_tables(ctx):
    p = ctx.p
    mod = p.module("objects/surveys/electromagnetics/base.py")
    type_map = p.const_dict(mod, "TYPE_MAP")
    omit = mod.assigns.get("OMIT_LIST")
    if not isinstance(omit, (ast.List, ast.Tuple)):
        raise AnalysisError("anchor OMIT_LIST not found in electromagnetics/base.py")
    return mod, type_map, [e.value for e in omit.elts if isinstance(e, ast.Constant)]


def const_return(K, name):
    """Value of a property/classmethod that returns a class-private constant or a literal:
    returns (kind, value) with kind in 'const' | 'class' | 'self-attr' | 'none' | None."""
    m = K.lookup(name)
    if not m:
        return (None, None)
    fn = m[2].getter if m[1] == "prop" else m[2] if m[1] == "method" else None
    if fn is None:
        return (None, None)
    rets = [r for r in ast.walk(fn.node) if isinstance(r, ast.Return)]
    if len(rets) != 1 or rets[0].value is None:
        return ("none", None) if not rets or rets[0].value is None else (None, None)
    v = rets[0].value
    if isinstance(v, ast.Constant):
        return ("none", None) if v.value is None else ("const", v.value)
    if isinstance(v, ast.Attribute) and isinstance(v.value, ast.Name) and v.value.id in ("self", "cls"):
        if v.attr.startswith("__") and not v.attr.endswith("__"):
            owner = fn.cls
            a = owner.class_assigns.get(v.attr)
            if a and isinstance(a[0], ast.Constant):
                return ("const", a[0].value)
            return (None, None)
        return ("self-attr", v.attr)
    if isinstance(v, ast.Name):
        r = K.module and None
        return ("class", v.id)
    if isinstance(v, ast.Call) and unparse(v) == "type(None)":
        return ("nonetype", None)
    return (None, unparse(v))


def em_classes(ctx):
    p = ctx.p
    base = p.cls("BaseEMSurvey")
    out = []
    for K in p.subclasses(base, strict=True):
        kind, val = const_return(K, "type")
        if kind == "const":
            out.append((K, val))
    return out


def rule_keys(ctx) -> RuleResult:
    res = RuleResult(
        "C20.KEYS",
        "C20",
        "per survey class pair: the class `type` is a TYPE_MAP key; `complement` returns the link of the other kind; "
        "default receiver/transmitter classes have the matching type; link keys are in default_metadata; for each link "
        "property the metadata key its getter reads = the key its setter writes = TYPE_MAP's entry; DC electrodes likewise",
        floor=60,
    )
    p = ctx.p
    mod, type_map, omit = em_tables(ctx)
    inv = {v: k for k, v in type_map.items()}
    classes = em_classes(ctx)
    if len(classes) < 10:
        raise AnalysisError(f"C20.KEYS: only {len(classes)} concrete EM survey classes found")
    by_name = {K.name: (K, t) for K, t in classes}
    for K, typ in classes:
        # a. type in TYPE_MAP
        ok = typ in type_map
        res.inst(f"{K.name}.type = {typ!r} in TYPE_MAP", ok=ok)
        if not ok:
            res.find(K.name, "type", f"type {typ!r} is not a TYPE_MAP key", K.where, "links cannot be resolved for this class")
            continue
        own_link = type_map[typ]
        dm = K.lookup("default_metadata")
        dkeys = set()
        if dm and dm[1] == "prop":
            for d in ast.walk(dm[2].getter.node):
                if isinstance(d, ast.Dict):
                    for k, v in zip(d.keys, d.values):
                        if isinstance(k, ast.Constant) and k.value == "EM Dataset" and isinstance(v, ast.Dict):
                            dkeys = {kk.value for kk in v.keys if isinstance(kk, ast.Constant)}
        partner_keys = (dkeys & set(type_map)) - {typ}
        # b. complement
        kind, val = const_return(K, "complement")
        if not partner_keys and kind == "none":
            res.inst(f"{K.name}: no partner kind in default_metadata, complement is None")
            okc = False
            no_partner = True
        else:
            no_partner = False
        okc = kind == "self-attr" and val in inv and val != own_link and (not partner_keys or inv[val] in partner_keys)
        if no_partner:
            ok_own = typ in dkeys
            res.inst(f"{K.name}.default_metadata has its own key {typ!r}", ok=ok_own)
            if not ok_own:
                res.find(K.name, "default_metadata", f"own link key {typ!r} missing from default_metadata", dm[2].getter.where if dm else K.where,
                         "the entity does not record itself in the shared metadata")
        if not no_partner:
            res.inst(f"{K.name}.complement -> self.{val}", ok=okc)
        if not okc and not no_partner:
            m = K.lookup("complement")
            res.find(K.name, "complement", f"complement returns {val!r}", m[2].getter.where if m else K.where,
                     f"{K.name} is a {typ} class: its complement must be a link of the other kind, not {val!r}; copies would be linked to "
                     "the wrong partner (or to themselves)")
        # c. default types
        for prop, want in (("default_receiver_type", "Receivers"), ("default_transmitter_type", "Transmitters")):
            k2, v2 = const_return(K, prop)
            if k2 == "class":
                tgt = by_name.get(v2)
                ok2 = tgt is not None and tgt[1] == want
                res.inst(f"{K.name}.{prop} -> {v2} (type {tgt[1] if tgt else '?'})", ok=ok2)
                if not ok2:
                    m = K.lookup(prop)
                    res.find(K.name, prop, f"{prop} returns {v2} whose type is {tgt[1] if tgt else 'unknown'}", m[2].getter.where,
                             f"the {want.lower()} setter accepts objects of the wrong kind")
            elif k2 == "nonetype":
                res.inst(f"{K.name}.{prop} -> type(None) (no such partner)")
        # d. default_metadata keys
        m = K.lookup("default_metadata")
        keys = set()
        if m and m[1] == "prop":
            for d in ast.walk(m[2].getter.node):
                if isinstance(d, ast.Dict):
                    for k, v in zip(d.keys, d.values):
                        if isinstance(k, ast.Constant) and k.value == "EM Dataset" and isinstance(v, ast.Dict):
                            keys = {kk.value for kk in v.keys if isinstance(kk, ast.Constant)}
        need = {typ} | ({inv[val]} if okc else set())
        okd = need <= keys
        res.inst(f"{K.name}.default_metadata has link keys {sorted(need)}", ok=okd)
        if not okd:
            res.find(K.name, "default_metadata", f"link keys {sorted(need - keys)} missing from default_metadata",
                     m[2].getter.where if m else K.where,
                     "the metadata setter only requires the keys of default_metadata: a dictionary without the partner's key is accepted "
                     "and the link is silently lost")
        # e. getter / setter keys per link property
        for link, key in inv.items():
            mm = K.lookup(link)
            if not mm or mm[1] != "prop":
                continue
            g, s = mm[2].getter, mm[2].setter
            gkeys = _em_keys_read(g) if g else set()
            if g is not None and _returns_self_only(g):
                gkeys = {key}
            skeys = _em_keys_written(s) if s else set()
            if gkeys:
                okg = gkeys == {key}
                res.inst(f"{K.name}.{link} getter reads {sorted(gkeys)}", ok=okg)
                if not okg:
                    res.find(g.cls.name, link, f"getter reads metadata key {sorted(gkeys)}, TYPE_MAP says {key!r}", g.where,
                             "after re-opening the entity resolves a different partner than the one the setter recorded")
            if s is not None and skeys:
                oks = skeys == {key}
                stores = any(isinstance(n, ast.Attribute) and n.attr == "_" + link and isinstance(n.ctx, ast.Store) for n in ast.walk(s.node))
                res.inst(f"{K.name}.{link} setter writes {sorted(skeys)} and stores _{link}: {stores}", ok=oks and stores)
                if not oks:
                    res.find(s.cls.name, link, f"setter writes metadata key {sorted(skeys)}, TYPE_MAP says {key!r}", s.where,
                             "the link is recorded under a key no getter reads")
                if not stores:
                    res.find(s.cls.name, link, f"setter does not store self._{link}", s.where,
                             "the in-memory link is not updated; the getter keeps returning the previous partner")
    # DC pair
    pe, ce = p.cls("PotentialElectrode"), p.cls("CurrentElectrode")
    for K, link, partner_key, own_key in ((pe, "current_electrodes", "Current Electrodes", "Potential Electrodes"),
                                          (ce, "potential_electrodes", "Potential Electrodes", "Current Electrodes")):
        pr = K.props.get(link)
        if pr is None or pr.getter is None or pr.setter is None:
            raise AnalysisError(f"anchor {K.name}.{link} not found")
        gk = {n.slice.value for n in ast.walk(pr.getter.node) if isinstance(n, ast.Subscript) and unparse(n.value) == "self.metadata" and isinstance(n.slice, ast.Constant)}
        ok = gk == {partner_key}
        res.inst(f"{K.name}.{link} getter reads {sorted(gk)}", ok=ok)
        if not ok:
            res.find(K.name, link, f"getter reads {sorted(gk)}, expected {partner_key!r}", pr.getter.where, "the partner is resolved from the wrong metadata key")
        arg = pr.setter.params[1]
        d = next((x for x in ast.walk(pr.setter.node) if isinstance(x, ast.Dict)), None)
        pairs = {k.value: unparse(v) for k, v in zip(d.keys, d.values) if isinstance(k, ast.Constant)} if d else {}
        ok = pairs == {partner_key: f"{arg}.uid", own_key: "self.uid"}
        res.inst(f"{K.name}.{link} setter records {pairs}", nontrivial=True, ok=ok)
        if not ok:
            res.find(K.name, link, f"setter records {pairs}", pr.setter.where,
                     f"expected {{{partner_key!r}: {arg}.uid, {own_key!r}: self.uid}}: the two identifiers are swapped or missing")
        both = {unparse(t) for n in ast.walk(pr.setter.node) if isinstance(n, ast.Assign) for t in n.targets if isinstance(t, ast.Attribute) and t.attr == "metadata"}
        ok = both == {"self.metadata", f"{arg}.metadata"}
        res.inst(f"{K.name}.{link} setter assigns the metadata on both entities: {sorted(both)}", ok=ok)
        if not ok:
            res.find(K.name, link, f"metadata assigned on {sorted(both)} only", pr.setter.where, "only one side records the link")
    bm = p.cls("BaseElectrode").props["metadata"].setter
    dk = next((x for x in ast.walk(bm.node) if isinstance(x, ast.List) and all(isinstance(e, ast.Constant) for e in x.elts) and x.elts), None)
    ok = dk is not None and {e.value for e in dk.elts} == {"Current Electrodes", "Potential Electrodes"}
    res.inst("BaseElectrode.metadata setter requires both electrode keys", ok=ok)
    if not ok:
        res.find("BaseElectrode", "metadata", "required keys are not both electrode keys", bm.where, "metadata missing a partner key is accepted")
    return res


def _returns_self_only(g) -> bool:
    rets = [r for r in ast.walk(g.node) if isinstance(r, ast.Return)]
    return bool(rets) and all(unparse(r.value) == "self" for r in rets)


def _em_keys_read(g) -> set:
    out = set()
    for n in ast.walk(g.node):
        if isinstance(n, ast.Subscript) and isinstance(n.slice, ast.Constant) and unparse(n.value) == "self.metadata['EM Dataset']" and isinstance(n.ctx, ast.Load):
            out.add(n.slice.value)
    return out


def _em_keys_written(s) -> set:
    out = set()
    for n in ast.walk(s.node):
        if isinstance(n, ast.Call) and isinstance(n.func, ast.Attribute) and n.func.attr == "edit_em_metadata" and n.args and isinstance(n.args[0], ast.Dict):
            out |= {k.value for k in n.args[0].keys if isinstance(k, ast.Constant)}
    return out


def rule_prop(ctx) -> RuleResult:
    res = RuleResult(
        "C20.PROP",
        "C20",
        "BaseEMSurvey.metadata's setter propagates to every partner named in TYPE_MAP: the loop enumerates all link "
        "properties and, per partner, assigns _metadata and persists it; edit_em_metadata ends in the metadata setter",
        floor=4,
    )
    p = ctx.p
    mod, type_map, omit = em_tables(ctx)
    st = p.cls("BaseEMSurvey").props["metadata"].setter
    loops = [n for n in ast.walk(st.node) if isinstance(n, ast.For) and isinstance(n.iter, (ast.List, ast.Tuple))]
    lp = next((l for l in loops if all(isinstance(e, ast.Constant) for e in l.iter.elts)), None)
    if lp is None:
        # the loop may iterate TYPE_MAP.values()
        lp = next((n for n in ast.walk(st.node) if isinstance(n, ast.For) and "TYPE_MAP" in unparse(n.iter)), None)
        names = set(type_map.values()) if lp is not None else set()
    else:
        names = {e.value for e in lp.iter.elts}
    ok = lp is not None and set(type_map.values()) <= names
    res.inst(f"metadata setter loops over {sorted(names)} ⊇ TYPE_MAP values", ok=ok)
    if not ok:
        res.find("BaseEMSurvey", "metadata", f"propagation loop covers {sorted(names)}, TYPE_MAP has {sorted(type_map.values())}", st.where,
                 "a partner kind is not updated when the shared survey parameters change")
    if lp is not None:
        body = ast.Module(body=lp.body, type_ignores=[])
        var = None
        for n in ast.walk(body):
            if isinstance(n, ast.Assign) and isinstance(n.value, ast.Call) and unparse(n.value.func) == "getattr":
                var = n.targets[0].id
        assigns = [n for n in ast.walk(body) if isinstance(n, ast.Assign) and any(unparse(t) == f"{var}._metadata" for t in n.targets)]
        ok1 = bool(assigns) and all(unparse(a.value) == st.params[1] for a in assigns)
        res.inst(f"per partner: {var}._metadata = {st.params[1]}", nontrivial=True, ok=ok1)
        if not ok1:
            res.find("BaseEMSurvey", "metadata", "partner's _metadata is not bound to the same dictionary", st.where,
                     "edits through one side are not visible on the other")
        pers = [n for n in ast.walk(body) if isinstance(n, ast.Call) and isinstance(n.func, ast.Attribute) and n.func.attr == "update_attribute"
                and n.args and unparse(n.args[0]) == var and len(n.args) > 1 and unparse(n.args[1]) == "'metadata'"]
        ok2 = bool(pers)
        res.inst(f"per partner: update_attribute({var}, 'metadata')", nontrivial=True, ok=ok2)
        if not ok2:
            res.find("BaseEMSurvey", "metadata", "partner's metadata is not persisted", st.where,
                     "the partner's copy of the shared parameters on file goes stale")
    ee = p.cls("BaseEMSurvey").methods.get("edit_em_metadata")
    last = ee.node.body[-1]
    ok3 = isinstance(last, ast.Assign) and unparse(last.targets[0]) == "self.metadata"
    res.inst("edit_em_metadata ends with `self.metadata = ...`", ok=ok3)
    if not ok3:
        res.find("BaseEMSurvey", "edit_em_metadata", "does not end in the metadata setter", ee.where,
                 "parameter edits are neither persisted nor propagated to the partner")
    return res


COPY_CALLS = {"_super_copy", "copy"}


def rule_copy(ctx) -> RuleResult:
    res = RuleResult(
        "C20.COPY",
        "C20",
        "in copy / copy_complement of the survey classes the value assigned to a link property of the new entity originates "
        "from a copy call, never from self / self.complement; link fields and _metadata are in the omit list handed to the "
        "copy chain",
        floor=6,
    )
    p = ctx.p
    mod, type_map, omit = em_tables(ctx)
    links = set(type_map.values()) | {"current_electrodes", "potential_electrodes"}
    need_omit = {"_" + v for v in type_map.values()} | {"_metadata"}
    ok = need_omit <= set(omit)
    res.inst(f"OMIT_LIST {sorted(omit)} ⊇ {sorted(need_omit)}", ok=ok)
    if not ok:
        res.find("BaseEMSurvey", "OMIT_LIST", f"OMIT_LIST lacks {sorted(need_omit - set(omit))}", f"{mod.relpath}:1",
                 "the copy is constructed with the source's link objects / metadata: it stays linked to the originals")
    fam = [c for c in p.classes if not c.synthetic and (p.cls("BaseEMSurvey") in c.mro or p.cls("BaseElectrode") in c.mro)]
    seen = set()
    for K in fam:
        for name in ("copy", "copy_complement"):
            fn = K.methods.get(name)
            if fn is None or fn in seen:
                continue
            seen.add(fn)
            # reaching definitions (flow-insensitive within the function) of local names
            defs: dict[str, list] = {}
            for n in ast.walk(fn.node):
                if isinstance(n, (ast.Assign, ast.AnnAssign)) and n.value is not None:
                    tg = n.targets if isinstance(n, ast.Assign) else [n.target]
                    for t in tg:
                        if isinstance(t, ast.Name):
                            defs.setdefault(t.id, []).append(n.value)
            sinks = []
            for n in ast.walk(fn.node):
                if isinstance(n, ast.Assign):
                    for t in n.targets:
                        if isinstance(t, ast.Attribute) and t.attr in links and unparse(t.value) != "self":
                            sinks.append((t, n.value, n))
                if isinstance(n, ast.Call) and isinstance(n.func, ast.Name) and n.func.id == "setattr" and len(n.args) == 3 and "TYPE_MAP" in unparse(n.args[1]):
                    sinks.append((n.args[0], n.args[2], n))
            for tgt, val, node in sinks:
                srcs = defs.get(val.id, []) if isinstance(val, ast.Name) else [val]
                good = bool(srcs) and all(
                    isinstance(s, ast.Call) and isinstance(s.func, ast.Attribute) and s.func.attr in COPY_CALLS for s in srcs
                )
                res.inst(f"{fn.qualname}:{node.lineno} {unparse(tgt)[:30]} <- {unparse(val)[:30]} from {[unparse(s)[:30] for s in srcs]}", nontrivial=True, ok=good)
                if not good:
                    res.find(fn.cls.name, fn.name, f"link {unparse(tgt)[:40]} assigned from {unparse(val)[:40]}", f"{fn.module.relpath}:{node.lineno}",
                             "the copy is linked to an object that does not come from a copy call (the original partner): both the original and "
                             "the copy now point at the same partner and its metadata is overwritten")
            # omit lists handed to the copy calls
            for n in ast.walk(fn.node):
                if isinstance(n, ast.Call) and isinstance(n.func, ast.Attribute) and n.func.attr in COPY_CALLS and ("super" in unparse(n.func.value) or "complement" in unparse(n.func.value)):
                    kw = next((k for k in n.keywords if k.arg == "omit_list"), None)
                    if kw is None:
                        ok = False
                        got = None
                    else:
                        v = kw.value
                        if isinstance(v, ast.Name) and v.id in defs:
                            v = defs[v.id][0]
                        if isinstance(v, ast.Name) and v.id == "OMIT_LIST":
                            got = set(omit)
                        elif isinstance(v, (ast.List, ast.Tuple)):
                            got = {e.value for e in v.elts if isinstance(e, ast.Constant)}
                        else:
                            got = None
                        want = {"_metadata"} | ({"_potential_electrodes", "_current_electrodes"} if p.cls("BaseElectrode") in K.mro else {"_" + x for x in type_map.values()})
                        ok = got is not None and want <= got
                    res.inst(f"{fn.qualname}:{n.lineno} {unparse(n.func)[:40]}(omit_list={sorted(got) if got else got})", ok=ok)
                    if not ok:
                        res.find(fn.cls.name, fn.name, f"{unparse(n.func)[:40]} without the link fields in omit_list", f"{fn.module.relpath}:{n.lineno}",
                                 "link fields / metadata are harvested from the source and handed to the copy's constructor")
    return res


def rule_store(ctx) -> RuleResult:
    res = RuleResult(
        "C20.STORE",
        "C20",
        "the metadata setters that record the links (BaseEMSurvey.metadata, BaseElectrode.metadata) reach the store — "
        "`self._metadata = ...` followed by update_attribute, or the delegation to the base setter — on every path that "
        "returns normally: no value-dependent early return (the links are always written on both entities, even when the "
        "in-memory dictionaries already look equal because they are shared)",
        floor=2,
    )
    p = ctx.p
    from ..cfg import CFG
    from ..kinds import reach

    for cname in ("BaseEMSurvey", "BaseElectrode"):
        K = p.cls(cname)
        pr = K.props.get("metadata")
        if pr is None or pr.setter is None or pr.setter.cls is not K:
            raise AnalysisError(f"anchor {cname}.metadata setter not found")
        st = pr.setter
        sn = st.self_name or "self"
        g = CFG(st.node)

        def stores(n):
            a = n.ast
            if a is None or isinstance(a, (list, ast.If, ast.For, ast.While, ast.With, ast.Try)):
                return False
            for x in ast.walk(a):
                if isinstance(x, ast.Call) and isinstance(x.func, ast.Attribute) and x.func.attr == "fset" and "metadata" in unparse(x.func):
                    return True
                if isinstance(x, ast.Call) and isinstance(x.func, ast.Attribute) and x.func.attr == "update_attribute" and x.args and unparse(x.args[0]) == sn:
                    return True
            return False

        ok = g.exit not in reach(g, [g.entry], avoid=stores)
        res.inst(f"{cname}.metadata setter: every normal exit passes the store / base-setter delegation", nontrivial=True, ok=ok)
        if not ok:
            rets = [n for n in ast.walk(st.node) if isinstance(n, ast.Return)]
            line = rets[0].lineno if rets else st.node.lineno
            res.find(cname, "metadata", "a path returns without storing / persisting the metadata", f"{st.module.relpath}:{line}",
                     "the setter can return before the metadata is handed to the writer: the link setters give both partners the same "
                     "dictionary object, so an equality (or similar) shortcut sees no change and the partner's file keeps the old identifiers")
    return res


def rule_mangle(ctx) -> RuleResult:
    res = RuleResult(
        "C20.MANGLE",
        "C20",
        "every class-private name (self.__X / cls.__X) read in a survey class is defined in that same class body "
        "(private names are mangled per class: an override that reads the parent's __X raises AttributeError, which makes "
        "the shared survey parameters behind it — unit, input type — impossible to read or edit)",
        floor=10,
    )
    p = ctx.p
    for K in p.classes:
        if K.synthetic or "objects/surveys" not in K.module.relpath:
            continue
        body_defs = set()
        for st in K.node.body:
            if isinstance(st, (ast.Assign, ast.AnnAssign)):
                for t in (st.targets if isinstance(st, ast.Assign) else [st.target]):
                    if isinstance(t, ast.Name):
                        body_defs.add(t.id)
        fns = list(K.methods.values()) + [f for pr in K.props.values() for f in (pr.getter, pr.setter, pr.deleter) if f is not None and f.cls is K]
        for fn in fns:
            for x in ast.walk(fn.node):
                if isinstance(x, ast.Attribute) and isinstance(x.ctx, (ast.Store,)) and x.attr.startswith("__") and not x.attr.endswith("__"):
                    body_defs.add(x.attr)
        for fn in fns:
            for x in ast.walk(fn.node):
                if isinstance(x, ast.Attribute) and isinstance(x.ctx, ast.Load) and x.attr.startswith("__") and not x.attr.endswith("__") \
                        and isinstance(x.value, ast.Name) and x.value.id in ("self", "cls"):
                    ok = x.attr in body_defs
                    res.inst(f"{K.name}.{fn.name}: reads {x.value.id}.{x.attr}, defined in {K.name}: {ok}", ok=ok)
                    if not ok:
                        res.find(K.name, fn.prop or fn.name, f"reads {x.value.id}.{x.attr}, which {K.name} does not define", f"{fn.module.relpath}:{x.lineno}",
                                 f"`{x.value.id}.{x.attr}` is mangled to _{K.name}{x.attr}; only a parent class defines {x.attr}, so every call raises AttributeError")
    return res


RULES = [rule_keys, rule_prop, rule_copy, rule_store, rule_mangle]
