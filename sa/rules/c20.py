"""C20 — linked surveys stay mutually consistent (sibling tables, propagation, copy provenance).

The rules look at NORMALISED functions (ctx.view: private helpers expanded, hoisted literals substituted) and decide by
value origins (sa/rules/_c20_sem.py: what a local may stand for), so that aliases, temporaries, renamed locals, extracted
helpers, hoisted tables, guard clauses and loops over name tables do not change a verdict."""

from __future__ import annotations

import ast

from ..model import AnalysisError, unparse
from ..report import RuleResult
from ._c20_sem import (Flow, assume_truth, attr_stores, callee_names, const_seq, dict_keys, is_em_dataset, is_metadata_of, is_self,
                       keys_read, reach_assuming, specialise, specialise_consts, specialise_identity, view)


def _global_resolver(p, mod):
    """name -> module / imported level defining expression (or None)."""
    def resolve(name):
        r = p.resolve_name(mod, name)
        if r and r[0] == "assign":
            return r[1][1]
        return None

    return resolve


def _type_map(ctx) -> dict:
    c = getattr(ctx, "cache", None)
    if c is not None and "c20.type_map" in c:
        return c["c20.type_map"]
    tm = ctx.p.const_dict(ctx.p.module("objects/surveys/electromagnetics/base.py"), "TYPE_MAP")
    if c is not None:
        c["c20.type_map"] = tm
    return tm


def _is_constant_name(attr: str) -> bool:
    """Constant by convention: upper case once the leading underscores are dropped (`_COMPLEMENT`, `__TYPE`)."""
    core = attr.lstrip("_")
    return bool(core) and core.isupper()


def _rebound_attrs(ctx) -> set:
    """Attribute names that some code of the package assigns through an object (`x.A = ..`, `setattr(x, 'A', ..)`, del)."""
    c = getattr(ctx, "cache", None)
    if c is not None and "c20.rebound" in c:
        return c["c20.rebound"]
    out = set()
    for m in ctx.p.modules.values():
        for x in ast.walk(m.tree):
            if isinstance(x, ast.Attribute) and isinstance(x.ctx, (ast.Store, ast.Del)):
                out.add(x.attr)
            elif isinstance(x, ast.Call) and isinstance(x.func, ast.Name) and x.func.id in ("setattr", "delattr") and len(x.args) >= 2 \
                    and isinstance(x.args[1], ast.Constant) and isinstance(x.args[1].value, str):
                out.add(x.args[1].value)
    if c is not None:
        c["c20.rebound"] = out
    return out


def _flow(ctx, fn, K=None) -> Flow:
    """Value origins inside the NORMALISED function of fn (ctx.view), specialised to class K (default: the class the
    function is written in): branches decided by `isinstance(self, <class>)` keep only the side that class takes.
    String constants and literal tables hoisted to module / class level are followed (whatever name they were given);
    look-ups in the link table are folded.  fl.node is the specialised body, fl.view_node the unspecialised view."""
    p = ctx.p
    fv = view(ctx, fn)
    K = K if K is not None else fn.cls
    glob = _global_resolver(p, fn.module)

    def outer(kind, name):
        if kind == "global":
            return glob(name)
        if kind == "callable":
            # the function a call `self.m(..)` / `cls.m(..)` / `f(..)` invokes (for generator helpers), as an ast node
            f = name.func
            if isinstance(f, ast.Attribute) and isinstance(f.value, ast.Name) and f.value.id in ("self", "cls", fn.self_name or "self") and K is not None:
                m = K.lookup(f.attr)
                return m[2].node if m and m[1] == "method" else None
            if isinstance(f, ast.Name):
                r = p.resolve_name(fn.module, f.id)
                return r[1].node if r and r[0] == "func" else None
            return None
        if K is None:
            return None
        if name.startswith("__") and not name.endswith("__"):
            a = fn.cls.class_assigns.get(name) if fn.cls is not None else None
            return a[0] if a else None
        m = K.lookup(name)
        return m[2] if m and m[1] == "assign" else None

    def is_a(cname):
        if K is None:
            return None
        r = p.resolve_name(fn.module, cname)
        if not r or r[0] != "class":
            return None
        C = r[1]
        if C in K.mro:
            return True
        return None if any(C in S.mro for S in p.subclasses(K)) else False

    node = specialise(fv.node, fn.self_name or "self", is_a)
    if K is not None and any(isinstance(x, ast.Attribute) and isinstance(x.value, ast.Name) and x.value.id in ("self", "cls", fn.self_name or "self")
                             and _is_constant_name(x.attr) for x in ast.walk(node)):
        # tests on a per-class constant read through self (`if self._KIND is None:` in one generic accessor)
        rebound = _rebound_attrs(ctx)

        def class_const(attr):
            if not _is_constant_name(attr) or attr in rebound:
                return None
            owner = fn.cls if attr.startswith("__") and not attr.endswith("__") else K
            m = owner.lookup(attr) if owner is not None else None
            return m[2] if m and m[1] == "assign" and isinstance(m[2], ast.Constant) else None

        node = specialise_consts(node, fn.self_name or "self", class_const)
    fl = Flow(node, {"TYPE_MAP": _type_map(ctx)}, outer)
    if any(isinstance(x, ast.Compare) and isinstance(x.ops[0], (ast.Is, ast.IsNot)) and any(is_self(y, fn.self_name or "self") for y in [x.left] + x.comparators) for x in ast.walk(node)):
        # `... is self` tests decided by which locals stand for self (roles named first, a field chosen by identity afterwards)
        node2 = specialise_identity(node, fn.self_name or "self", fl, is_a)
        if node2 is not node:
            fl = Flow(node2, {"TYPE_MAP": _type_map(ctx)}, outer)
    fl.view_node = fv.node
    return fl


def em_tables(ctx):
    p = ctx.p
    mod = p.module("objects/surveys/electromagnetics/base.py")
    type_map = p.const_dict(mod, "TYPE_MAP")
    omit = mod.assigns.get("OMIT_LIST")
    if omit is None:
        raise AnalysisError("anchor OMIT_LIST not found in electromagnetics/base.py")
    vals = const_seq(None, omit, _global_resolver(p, mod))
    if vals is None:
        raise AnalysisError("anchor OMIT_LIST in electromagnetics/base.py is not a sequence of constants")
    return mod, type_map, sorted(vals)


def const_return(K, name, p=None):
    """Value of a property/classmethod that returns a class-private constant or a literal:
    returns (kind, value) with kind in 'const' | 'class' | 'self-attr' | 'none' | None."""
    m = K.lookup(name)
    if not m:
        return (None, None)
    fn = m[2].getter if m[1] == "prop" else m[2] if m[1] == "method" else None
    if fn is None:
        return (None, None)
    rets = [r for r in ast.walk(fn.node) if isinstance(r, ast.Return)]
    if len(rets) != 1 or rets[0].value is None:
        return ("none", None) if not rets or rets[0].value is None else (None, None)
    v = rets[0].value
    # a local holding the value: `value = self.__X; return value`
    if isinstance(v, ast.Name):
        alts = Flow(fn.node).alts(v)
        if len(alts) == 1:
            v = alts[0]
    if isinstance(v, ast.Constant):
        return ("none", None) if v.value is None else ("const", v.value)
    me = {"self", "cls", fn.self_name or "self"}
    if isinstance(v, ast.Attribute):
        recv = v.value
        own = isinstance(recv, ast.Name) and recv.id in me
        # type(self).X / self.__class__.X
        if not own and ((isinstance(recv, ast.Call) and isinstance(recv.func, ast.Name) and recv.func.id == "type" and len(recv.args) == 1
                         and isinstance(recv.args[0], ast.Name) and recv.args[0].id in me)
                        or (isinstance(recv, ast.Attribute) and recv.attr == "__class__" and isinstance(recv.value, ast.Name) and recv.value.id in me)):
            own = True
        owner_cls = None
        if not own and isinstance(recv, ast.Name) and p is not None:
            r = p.resolve_name(fn.module, recv.id)
            if r and r[0] == "class":
                owner_cls = r[1]
        if own or owner_cls is not None:
            if v.attr.startswith("__") and not v.attr.endswith("__"):
                owner = fn.cls  # mangled with the class the code is written in
                a = owner.class_assigns.get(v.attr) if owner is not None else None
                if a and isinstance(a[0], ast.Constant):
                    return ("const", a[0].value)
                return (None, None)
            look = (owner_cls or K).lookup(v.attr)
            if look and look[1] == "assign" and isinstance(look[2], ast.Constant) and isinstance(look[2].value, str):
                return ("const", look[2].value)
            if own:
                return ("self-attr", v.attr)
    if isinstance(v, ast.Name):
        if p is not None:
            r = p.resolve_name(fn.module, v.id)
            if r and r[0] == "class":
                return ("class", r[1].name)
            if r and r[0] == "assign" and isinstance(r[1][1], ast.Constant):
                c = r[1][1].value
                return ("none", None) if c is None else ("const", c)
        return ("class", v.id)
    if isinstance(v, ast.Call) and isinstance(v.func, ast.Name) and v.func.id == "type" and len(v.args) == 1 \
            and isinstance(v.args[0], ast.Constant) and v.args[0].value is None:
        return ("nonetype", None)
    return (None, unparse(v))


def complement_of(ctx, K):
    """What `K.complement` answers for an instance of class K: ('self-attr', link) | ('none', None) | (None, text).
    The getter reached through K's MRO is evaluated FOR K: per-class constants read through self are taken from K
    (`getattr(self, self._COMPLEMENT)` in one generic accessor), settled branches are dropped, locals are followed."""
    m = K.lookup("complement")
    if not m or m[1] != "prop" or m[2].getter is None:
        return (None, None)
    g = m[2].getter
    if not hasattr(ctx, "view"):
        return const_return(K, "complement", ctx.p)
    from ..cfg import CFG

    fl = _flow(ctx, g, K)
    sn = g.self_name or "self"
    cfg = CFG(fl.node)
    live = _reach_settled(cfg, [cfg.entry])
    rets = [n for n in cfg.nodes if n.kind == "return" and n in live]
    if cfg.exit in live and any(n.kind != "return" and any(s is cfg.exit for s, _ in n.succ) for n in live):
        rets.append(None)  # falls off the end: returns None
    out = set()
    for r in rets:
        v = r.ast if r is not None else None
        if v is None:
            out.add(("none", None))
            continue
        for o in fl.origins(v):
            if isinstance(o, ast.Constant) and o.value is None:
                out.add(("none", None))
            elif isinstance(o, ast.Attribute) and is_self(o.value, sn):
                out.add(("self-attr", o.attr))
            elif isinstance(o, ast.Call) and isinstance(o.func, ast.Name) and o.func.id == "getattr" and len(o.args) >= 2 and any(is_self(x, sn) for x in fl.origins(o.args[0])) \
                    and fl.consts(o.args[1]) and len(fl.consts(o.args[1])) == 1:
                out.add(("self-attr", next(iter(fl.consts(o.args[1])))))
            else:
                out.add((None, unparse(o)))
    if len(out) == 1:
        return next(iter(out))
    return (None, " | ".join(sorted(str(v) for _, v in out)))


def em_classes(ctx):
    p = ctx.p
    base = p.cls("BaseEMSurvey")
    out = []
    for K in p.subclasses(base, strict=True):
        kind, val = const_return(K, "type", p)
        if kind == "const":
            out.append((K, val))
    return out


def _default_em_keys(ctx, K):
    """(keys of the 'EM Dataset' dictionary built by K.default_metadata, the getter)."""
    dm = K.lookup("default_metadata")
    keys = set()
    g = None
    if dm and dm[1] == "prop" and dm[2].getter is not None:
        g = dm[2].getter
        fl = _flow(ctx, g, K)
        dicts = [d for d in ast.walk(fl.node) if isinstance(d, ast.Dict)]
        # the returned value may be a (copy of a) table hoisted to module / class level
        for r in ast.walk(fl.node):
            if isinstance(r, ast.Return) and r.value is not None:
                for o in fl.origins(r.value):
                    while isinstance(o, ast.Call) and len(o.args) == 1 and not o.keywords and callee_names(fl, o) & {"deepcopy", "copy", "dict"}:
                        o = (fl.origins(o.args[0]) or [o.args[0]])[0]
                    dicts += [d for d in ast.walk(o) if isinstance(d, ast.Dict) and all(d is not x for x in dicts)]
        for d in dicts:
            for k, v in zip(d.keys, d.values):
                if k is None or fl.consts(k) != {"EM Dataset"}:
                    continue
                got = dict_keys(fl, v)
                if got is not None:
                    keys = set(got[0])
    return keys, g


def rule_keys(ctx) -> RuleResult:
    res = RuleResult(
        "C20.KEYS",
        "C20",
        "per survey class pair: the class `type` is a TYPE_MAP key; `complement` returns the link of the other kind; "
        "default receiver/transmitter classes have the matching type; link keys are in default_metadata; for each link "
        "property the metadata key its getter reads = the key its setter writes = TYPE_MAP's entry; DC electrodes likewise",
        floor=60,
    )
    p = ctx.p
    mod, type_map, omit = em_tables(ctx)
    inv = {v: k for k, v in type_map.items()}
    classes = em_classes(ctx)
    if len(classes) < 10:
        raise AnalysisError(f"C20.KEYS: only {len(classes)} concrete EM survey classes found")
    by_name = {K.name: (K, t) for K, t in classes}
    acc_cache: dict = {}
    for K, typ in classes:
        # a. type in TYPE_MAP
        ok = typ in type_map
        res.inst(f"{K.name}.type = {typ!r} in TYPE_MAP", ok=ok)
        if not ok:
            res.find(K.name, "type", f"type {typ!r} is not a TYPE_MAP key", K.where, "links cannot be resolved for this class")
            continue
        own_link = type_map[typ]
        dkeys, dm_getter = _default_em_keys(ctx, K)
        partner_keys = (dkeys & set(type_map)) - {typ}
        # b. complement
        kind, val = complement_of(ctx, K)
        if not partner_keys and kind == "none":
            res.inst(f"{K.name}: no partner kind in default_metadata, complement is None")
            okc = False
            no_partner = True
        else:
            no_partner = False
        okc = kind == "self-attr" and val in inv and val != own_link and (not partner_keys or inv[val] in partner_keys)
        if no_partner:
            ok_own = typ in dkeys
            res.inst(f"{K.name}.default_metadata has its own key {typ!r}", ok=ok_own)
            if not ok_own:
                res.find(K.name, "default_metadata", f"own link key {typ!r} missing from default_metadata", dm_getter.where if dm_getter else K.where,
                         "the entity does not record itself in the shared metadata")
        if not no_partner:
            res.inst(f"{K.name}.complement -> self.{val}", ok=okc)
        if not okc and not no_partner:
            m = K.lookup("complement")
            res.find(K.name, "complement", f"complement returns {val!r}", m[2].getter.where if m else K.where,
                     f"{K.name} is a {typ} class: its complement must be a link of the other kind, not {val!r}; copies would be linked to "
                     "the wrong partner (or to themselves)")
        # c. default types
        for prop, want in (("default_receiver_type", "Receivers"), ("default_transmitter_type", "Transmitters")):
            k2, v2 = const_return(K, prop, p)
            if k2 == "class":
                tgt = by_name.get(v2)
                ok2 = tgt is not None and tgt[1] == want
                res.inst(f"{K.name}.{prop} -> {v2} (type {tgt[1] if tgt else '?'})", ok=ok2)
                if not ok2:
                    m = K.lookup(prop)
                    res.find(K.name, prop, f"{prop} returns {v2} whose type is {tgt[1] if tgt else 'unknown'}", m[2].getter.where,
                             f"the {want.lower()} setter accepts objects of the wrong kind")
            elif k2 == "nonetype":
                res.inst(f"{K.name}.{prop} -> type(None) (no such partner)")
        # d. default_metadata keys
        keys = dkeys
        need = {typ} | ({inv[val]} if okc else set())
        okd = need <= keys
        res.inst(f"{K.name}.default_metadata has link keys {sorted(need)}", ok=okd)
        if not okd:
            res.find(K.name, "default_metadata", f"link keys {sorted(need - keys)} missing from default_metadata",
                     dm_getter.where if dm_getter else K.where,
                     "the metadata setter only requires the keys of default_metadata: a dictionary without the partner's key is accepted "
                     "and the link is silently lost")
        # e. getter / setter keys per link property
        for link, key in inv.items():
            mm = K.lookup(link)
            if not mm or mm[1] != "prop":
                continue
            g, s = mm[2].getter, mm[2].setter
            gkeys = _cached(acc_cache, ("g", g), lambda: _em_keys_read(g, ctx)) if g else set()
            if g is not None and _returns_self_only(g):
                gkeys = {key}
            skeys, stores = _cached(acc_cache, ("s", s), lambda: (_em_keys_written(s, ctx), _stores_field(s, "_" + link, ctx))) if s else (set(), False)
            if gkeys:
                okg = gkeys == {key}
                res.inst(f"{K.name}.{link} getter reads {sorted(gkeys)}", ok=okg)
                if not okg:
                    res.find(g.cls.name, link, f"getter reads metadata key {sorted(gkeys)}, TYPE_MAP says {key!r}", g.where,
                             "after re-opening the entity resolves a different partner than the one the setter recorded")
            if s is not None and skeys:
                oks = skeys == {key}
                res.inst(f"{K.name}.{link} setter writes {sorted(skeys)} and stores _{link}: {stores}", ok=oks and stores)
                if not oks:
                    res.find(s.cls.name, link, f"setter writes metadata key {sorted(skeys)}, TYPE_MAP says {key!r}", s.where,
                             "the link is recorded under a key no getter reads")
                if not stores:
                    res.find(s.cls.name, link, f"setter does not store self._{link}", s.where,
                             "the in-memory link is not updated; the getter keeps returning the previous partner")
    # DC pair
    pe, ce = p.cls("PotentialElectrode"), p.cls("CurrentElectrode")
    for K, link, partner_key, own_key in ((pe, "current_electrodes", "Current Electrodes", "Potential Electrodes"),
                                          (ce, "potential_electrodes", "Potential Electrodes", "Current Electrodes")):
        pr = K.props.get(link)
        if pr is None or pr.getter is None or pr.setter is None:
            raise AnalysisError(f"anchor {K.name}.{link} not found")
        gfl = _flow(ctx, pr.getter, K)
        gsn = pr.getter.self_name or "self"
        gk = keys_read(gfl, gfl.node, lambda c: is_metadata_of(c, gsn))
        ok = gk == {partner_key}
        res.inst(f"{K.name}.{link} getter reads {sorted(gk)}", ok=ok)
        if not ok:
            res.find(K.name, link, f"getter reads {sorted(gk)}, expected {partner_key!r}", pr.getter.where, "the partner is resolved from the wrong metadata key")
        if len(pr.setter.params) < 2:
            raise AnalysisError(f"anchor {K.name}.{link} setter has no value parameter")
        sn, arg = pr.setter.params[0], pr.setter.params[1]
        fl = _flow(ctx, pr.setter, K)
        stores = attr_stores(fl.node, "metadata", fl)
        # the dictionary (or dictionaries) recorded: key -> the things its value may stand for
        pairs: dict = {}
        complete = bool(stores)
        for _recv, value, _n in stores:
            got = dict_keys(fl, value)
            if got is None:
                complete = False
                continue
            for k, v in got[1]:
                pairs.setdefault(k, set()).update(fl.texts(v))
        shown = {k: (sorted(v)[0] if len(v) == 1 else sorted(v)) for k, v in pairs.items()}
        ok = complete and pairs == {partner_key: {f"{arg}.uid"}, own_key: {f"{sn}.uid"}}
        if not complete and not pairs:
            shown = {}
        res.inst(f"{K.name}.{link} setter records {shown}", nontrivial=True, ok=ok)
        if not ok:
            res.find(K.name, link, f"setter records {shown}", pr.setter.where,
                     f"expected {{{partner_key!r}: {arg}.uid, {own_key!r}: self.uid}}: the two identifiers are swapped or missing")
        both = set()
        for recv, _value, _n in stores:
            both |= {t + ".metadata" for t in fl.texts(recv)}
        ok = both == {f"{sn}.metadata", f"{arg}.metadata"}
        res.inst(f"{K.name}.{link} setter assigns the metadata on both entities: {sorted(both)}", ok=ok)
        if not ok:
            res.find(K.name, link, f"metadata assigned on {sorted(both)} only", pr.setter.where, "only one side records the link")
    bmp = p.cls("BaseElectrode").props.get("metadata")
    if bmp is None or bmp.setter is None:
        raise AnalysisError("anchor BaseElectrode.metadata setter not found")
    bm = bmp.setter
    fl = _flow(ctx, bm)
    required = set()
    for n in ast.walk(fl.node):
        # keys tested for presence: `<key> in <mapping>` with the key a constant (directly, or a variable ranging over constants)
        if isinstance(n, ast.Compare) and len(n.ops) == 1 and isinstance(n.ops[0], (ast.In, ast.NotIn)) and not isinstance(n.comparators[0], (ast.List, ast.Tuple, ast.Set, ast.Constant)):
            ks = fl.consts(n.left)
            if ks and all(isinstance(k, str) for k in ks):
                required |= ks
    if not required:
        # `required <= mapping.keys()` / loops over a constant sequence of required keys
        for _tgt, it in fl._loops:
            ks = const_seq(fl, it, _global_resolver(p, bm.module))
            if ks and all(isinstance(k, str) for k in ks):
                required |= ks
    ok = required == {"Current Electrodes", "Potential Electrodes"}
    res.inst("BaseElectrode.metadata setter requires both electrode keys", ok=ok)
    if not ok:
        res.find("BaseElectrode", "metadata", "required keys are not both electrode keys", bm.where, "metadata missing a partner key is accepted")
    return res


def _cached(cache, key, make):
    if key not in cache:
        cache[key] = make()
    return cache[key]


def _returns_self_only(g) -> bool:
    sn = g.self_name or "self"
    rets = [r for r in ast.walk(g.node) if isinstance(r, ast.Return)]
    return bool(rets) and all(r.value is not None and is_self(r.value, sn) for r in rets)


def _em_keys_read(g, ctx) -> set:
    """Constant keys the getter reads from the 'EM Dataset' dictionary of the entity's own metadata (through aliases,
    a key held in a variable, `.get`, an extracted look-up helper)."""
    fl = _flow(ctx, g)
    sn = g.self_name or "self"
    return keys_read(fl, fl.node, lambda c: is_em_dataset(c, sn))


def _em_keys_written(s, ctx) -> set:
    """Constant keys of the dictionaries handed to edit_em_metadata."""
    fl = _flow(ctx, s)
    out = set()
    for n in ast.walk(fl.node):
        if isinstance(n, ast.Call) and "edit_em_metadata" in callee_names(fl, n):
            arg = n.args[0] if n.args else next((k.value for k in n.keywords if k.arg == "entries"), None)
            if arg is None:
                continue
            got = dict_keys(fl, arg)
            if got is not None:
                out |= set(got[0])
    return out


def _stores_field(s, field, ctx) -> bool:
    fl = _flow(ctx, s)
    return bool(attr_stores(fl.node, field, fl))


def _passes_on_every_path(fn_node, pred) -> bool:
    """Every path from the entry to the normal exit passes a statement node with pred(stmt ast)."""
    from ..cfg import CFG
    from ..kinds import reach

    g = CFG(fn_node)

    def hit(n):
        a = n.ast
        if a is None or isinstance(a, (list, ast.If, ast.For, ast.While, ast.With, ast.Try)):
            return False
        return pred(a)

    return g.exit not in reach(g, [g.entry], avoid=hit)


def _self_links(fl, sn, e) -> set:
    """Names L such that `e` may stand for the partner `getattr(self, L, ...)` / `self.L`."""
    out = set()
    for a in fl.origins(e):
        if isinstance(a, ast.Call) and isinstance(a.func, ast.Name) and a.func.id == "getattr" and len(a.args) >= 2 \
                and any(is_self(x, sn) for x in fl.origins(a.args[0])):
            out |= {k for k in (fl.consts(a.args[1]) or ()) if isinstance(k, str)}
        elif isinstance(a, ast.Attribute) and isinstance(a.ctx, ast.Load) and any(is_self(x, sn) for x in fl.origins(a.value)):
            out.add(a.attr)
    return out


def rule_prop(ctx) -> RuleResult:
    res = RuleResult(
        "C20.PROP",
        "C20",
        "BaseEMSurvey.metadata's setter propagates to every partner named in TYPE_MAP: the loop enumerates all link "
        "properties and, per partner, assigns _metadata and persists it; edit_em_metadata ends in the metadata setter",
        floor=4,
    )
    p = ctx.p
    mod, type_map, omit = em_tables(ctx)
    pr = p.cls("BaseEMSurvey").props.get("metadata")
    if pr is None or pr.setter is None or len(pr.setter.params) < 2:
        raise AnalysisError("anchor BaseEMSurvey.metadata setter not found")
    st = pr.setter
    sn, prm = st.params[0], st.params[1]
    fl = _flow(ctx, st)

    def links_of(e) -> set:
        return _self_links(fl, sn, e)

    # partners enumerated: what the things that receive a `_metadata` / are handed to update_attribute(.., 'metadata') /
    # are looked up with getattr(self, <name>) may stand for
    cands = [r for r, _, _ in attr_stores(fl.node, "_metadata", fl)]
    for n in ast.walk(fl.node):
        if isinstance(n, ast.Call) and "update_attribute" in callee_names(fl, n) and len(n.args) > 1 and fl.consts(n.args[1]) == {"metadata"}:
            cands.append(n.args[0])
        elif isinstance(n, ast.Call) and isinstance(n.func, ast.Name) and n.func.id == "getattr" and len(n.args) >= 2:
            cands.append(n)
    enumerated = set()
    for c in cands:
        enumerated |= links_of(c)
    need = set(type_map.values())
    ok = need <= enumerated
    names = enumerated
    res.inst(f"metadata setter loops over {sorted(names)} ⊇ TYPE_MAP values", ok=ok)
    if not ok:
        res.find("BaseEMSurvey", "metadata", f"propagation loop covers {sorted(names)}, TYPE_MAP has {sorted(type_map.values())}", st.where,
                 "a partner kind is not updated when the shared survey parameters change")
    if enumerated:
        # the dictionary the entity itself keeps: what is stored in self._metadata (or the parameter handed to the base setter)
        kept = [v for r, v, _ in attr_stores(fl.node, "_metadata", fl) if any(is_self(a, sn) for a in fl.alts(r))] or [ast.Name(id=prm, ctx=ast.Load())]
        kept_texts = [fl.texts(v) for v in kept]
        kept_names = {v.id for v in kept if isinstance(v, ast.Name)}

        def same_dict(w) -> bool:
            if isinstance(w, ast.Name) and w.id in kept_names:
                return True
            tw = fl.texts(w)
            if any(tw == tk for tk in kept_texts):
                return True
            return bool(tw) and all(is_metadata_of(a, sn) for a in fl.alts(w))

        part = [(r, v) for r, v, _ in attr_stores(fl.node, "_metadata", fl) if links_of(r)]
        covered = set().union(*[links_of(r) for r, _ in part]) if part else set()
        ok1 = bool(part) and all(same_dict(v) for _, v in part) and (enumerated & need) <= covered
        res.inst("per partner: <partner>._metadata = <the dictionary stored on self>", nontrivial=True, ok=ok1)
        if not ok1:
            res.find("BaseEMSurvey", "metadata", "partner's _metadata is not bound to the same dictionary", st.where,
                     "edits through one side are not visible on the other")
        pers = set()
        for n in ast.walk(fl.node):
            if isinstance(n, ast.Call) and "update_attribute" in callee_names(fl, n) and len(n.args) > 1 and fl.consts(n.args[1]) == {"metadata"}:
                pers |= links_of(n.args[0])
        ok2 = bool(pers) and (enumerated & need) <= pers
        res.inst("per partner: update_attribute(<partner>, 'metadata')", nontrivial=True, ok=ok2)
        if not ok2:
            res.find("BaseEMSurvey", "metadata", "partner's metadata is not persisted", st.where,
                     "the partner's copy of the shared parameters on file goes stale")
    ee = p.cls("BaseEMSurvey").methods.get("edit_em_metadata")
    if ee is None:
        raise AnalysisError("anchor BaseEMSurvey.edit_em_metadata not found")
    esn = ee.self_name or "self"
    efl = _flow(ctx, ee)

    def sets_metadata(stmt) -> bool:
        return any(any(is_self(a, esn) for a in efl.alts(r)) for r, _, _ in attr_stores(stmt, "metadata", efl))

    ok3 = _passes_on_every_path(efl.view_node, sets_metadata)
    res.inst("edit_em_metadata ends with `self.metadata = ...`", ok=ok3)
    if not ok3:
        res.find("BaseEMSurvey", "edit_em_metadata", "does not end in the metadata setter", ee.where,
                 "parameter edits are neither persisted nor propagated to the partner")
    return res


COPY_CALLS = {"_super_copy", "copy"}


def _link_sinks(fl, sn, links) -> list:
    """(target, value, node) of the statements that link ANOTHER entity: `<x>.<link> = v` / setattr(<x>, <link name, also computed from
    the link table>, v), x not self."""
    def not_self(e) -> bool:
        return not any(is_self(a, sn) for a in fl.origins(e))

    sinks = []
    for link in sorted(links):
        for recv, val, node in attr_stores(fl.node, link, fl):
            if not_self(recv):
                tgt = next((t for t in getattr(node, "targets", []) if isinstance(t, ast.Attribute) and t.attr == link), None)
                sinks.append((tgt if tgt is not None else recv, val, node))
    for n in ast.walk(fl.node):
        # setattr(<new entity>, <name computed from the link table>, value)
        if isinstance(n, ast.Call) and isinstance(n.func, ast.Name) and n.func.id == "setattr" and len(n.args) == 3 and not isinstance(n.args[1], ast.Constant):
            alts = fl.alts(n.args[1])
            from_table = any(isinstance(x, ast.Name) and x.id == "TYPE_MAP" for a in alts for x in ast.walk(a))
            to_link = any(isinstance(x, ast.Constant) and isinstance(x.value, str) and x.value in links for a in alts for x in ast.walk(a))
            if (from_table or to_link) and not_self(n.args[0]):
                sinks.append((n.args[0], n.args[2], n))
    sinks.sort(key=lambda s: (s[2].lineno, s[2].col_offset))
    return sinks


def rule_copy(ctx) -> RuleResult:
    res = RuleResult(
        "C20.COPY",
        "C20",
        "in copy / copy_complement of the survey classes the value assigned to a link property of the new entity originates "
        "from a copy call, never from self / self.complement; link fields and _metadata are in the omit list handed to the "
        "copy chain",
        floor=6,
    )
    p = ctx.p
    mod, type_map, omit = em_tables(ctx)
    links = set(type_map.values()) | {"current_electrodes", "potential_electrodes"}
    need_omit = {"_" + v for v in type_map.values()} | {"_metadata"}
    ok = need_omit <= set(omit)
    res.inst(f"OMIT_LIST {sorted(omit)} ⊇ {sorted(need_omit)}", ok=ok)
    if not ok:
        res.find("BaseEMSurvey", "OMIT_LIST", f"OMIT_LIST lacks {sorted(need_omit - set(omit))}", f"{mod.relpath}:1",
                 "the copy is constructed with the source's link objects / metadata: it stays linked to the originals")
    fam = [c for c in p.classes if not c.synthetic and (p.cls("BaseEMSurvey") in c.mro or p.cls("BaseElectrode") in c.mro)]
    seen = set()
    for K in fam:
        for name in ("copy", "copy_complement"):
            fn = K.methods.get(name)
            if fn is None or fn in seen:
                continue
            seen.add(fn)
            sn = fn.self_name or "self"
            fl = _flow(ctx, fn)

            sinks = _link_sinks(fl, sn, links)
            for tgt, val, node in sinks:
                srcs = fl.origins(val)
                good = bool(srcs) and all(
                    isinstance(s, ast.Call) and isinstance(s.func, ast.Attribute) and s.func.attr in COPY_CALLS for s in srcs
                )
                res.inst(f"{fn.qualname}:{node.lineno} {unparse(tgt)[:30]} <- {unparse(val)[:30]} from {[unparse(s)[:30] for s in srcs]}", nontrivial=True, ok=good)
                if not good:
                    res.find(fn.cls.name, fn.name, f"link {unparse(tgt)[:40]} assigned from {unparse(val)[:40]}", f"{fn.module.relpath}:{node.lineno}",
                             "the copy is linked to an object that does not come from a copy call (the original partner): both the original and "
                             "the copy now point at the same partner and its metadata is overwritten")
            # omit lists handed to the copy calls on entities (super().copy / <partner>.copy / ._super_copy)
            resolve = _global_resolver(p, fn.module)
            for n in ast.walk(fl.node):
                if not (isinstance(n, ast.Call) and isinstance(n.func, ast.Attribute) and n.func.attr in COPY_CALLS):
                    continue
                if n.func.attr == "copy" and not any(_entity_receiver(a, links) for a in fl.alts(n.func.value)):
                    continue
                want = {"_metadata"} | ({"_potential_electrodes", "_current_electrodes"} if p.cls("BaseElectrode") in K.mro else {"_" + x for x in type_map.values()})
                kwv = next((k.value for k in n.keywords if k.arg == "omit_list"), None)
                if kwv is None:
                    # handed over inside a `**options` dictionary
                    for k in n.keywords:
                        if k.arg is None:
                            got_d = dict_keys(fl, k.value)
                            if got_d is not None:
                                kwv = next((v for kk, v in got_d[1] if kk == "omit_list"), kwv)
                got = const_seq(fl, kwv, resolve) if kwv is not None else None
                ok = got is not None and want <= got
                res.inst(f"{fn.qualname}:{n.lineno} {unparse(n.func)[:40]}(omit_list={sorted(got) if got else got})", ok=ok)
                if not ok:
                    res.find(fn.cls.name, fn.name, f"{unparse(n.func)[:40]} without the link fields in omit_list", f"{fn.module.relpath}:{n.lineno}",
                             "link fields / metadata are harvested from the source and handed to the copy's constructor")
    return res


def _entity_receiver(e, links) -> bool:
    """Receiver of a `.copy(...)` that is a survey entity: super() / super(A, b), or an expression through a link / complement."""
    if isinstance(e, ast.Call) and isinstance(e.func, ast.Name) and e.func.id == "super":
        return True
    return any(isinstance(x, ast.Attribute) and (x.attr in links or x.attr == "complement") for x in ast.walk(e))


def rule_store(ctx) -> RuleResult:
    res = RuleResult(
        "C20.STORE",
        "C20",
        "the metadata setters that record the links (BaseEMSurvey.metadata, BaseElectrode.metadata) reach the store — "
        "`self._metadata = ...` followed by update_attribute, or the delegation to the base setter — on every path that "
        "returns normally: no value-dependent early return (the links are always written on both entities, even when the "
        "in-memory dictionaries already look equal because they are shared)",
        floor=2,
    )
    p = ctx.p

    for cname in ("BaseEMSurvey", "BaseElectrode"):
        K = p.cls(cname)
        pr = K.props.get("metadata")
        if pr is None or pr.setter is None or pr.setter.cls is not K:
            raise AnalysisError(f"anchor {cname}.metadata setter not found")
        st = pr.setter
        sn = st.self_name or "self"
        fl = _flow(ctx, st)

        def stores(a):
            for x in ast.walk(a):
                if not isinstance(x, ast.Call):
                    continue
                # the function called: as written, or what a local holding a bound method stands for
                for f in ([x.func] if isinstance(x.func, ast.Attribute) else fl.values(x.func) if isinstance(x.func, ast.Name) else []):
                    if not isinstance(f, ast.Attribute):
                        continue
                    # delegation to the base class' setter: <...>.metadata.fset(self, ...)
                    if f.attr == "fset" and any(isinstance(y, ast.Attribute) and y.attr == "metadata" for y in ast.walk(f.value)):
                        return True
                    if f.attr == "update_attribute" and x.args and any(is_self(y, sn) for y in fl.origins(x.args[0])):
                        return True
            return False

        ok = _passes_on_every_path(fl.view_node, stores)
        res.inst(f"{cname}.metadata setter: every normal exit passes the store / base-setter delegation", nontrivial=True, ok=ok)
        if not ok:
            rets = [n for n in ast.walk(st.node) if isinstance(n, ast.Return)]
            line = rets[0].lineno if rets else st.node.lineno
            res.find(cname, "metadata", "a path returns without storing / persisting the metadata", f"{st.module.relpath}:{line}",
                     "the setter can return before the metadata is handed to the writer: the link setters give both partners the same "
                     "dictionary object, so an equality (or similar) shortcut sees no change and the partner's file keeps the old identifiers")
    return res


def rule_mangle(ctx) -> RuleResult:
    res = RuleResult(
        "C20.MANGLE",
        "C20",
        "every class-private name (self.__X / cls.__X) read in a survey class is defined in that same class body "
        "(private names are mangled per class: an override that reads the parent's __X raises AttributeError, which makes "
        "the shared survey parameters behind it — unit, input type — impossible to read or edit)",
        floor=10,
    )
    p = ctx.p
    for K in p.classes:
        if K.synthetic or "objects/surveys" not in K.module.relpath:
            continue
        body_defs = set()
        for st in K.node.body:
            if isinstance(st, (ast.Assign, ast.AnnAssign)):
                for t in (st.targets if isinstance(st, ast.Assign) else [st.target]):
                    for x in ast.walk(t):
                        if isinstance(x, ast.Name):
                            body_defs.add(x.id)
        fns = list(K.methods.values()) + [f for pr in K.props.values() for f in (pr.getter, pr.setter, pr.deleter) if f is not None and f.cls is K]
        for fn in fns:
            for x in ast.walk(fn.node):
                if isinstance(x, ast.Attribute) and isinstance(x.ctx, (ast.Store,)) and x.attr.startswith("__") and not x.attr.endswith("__"):
                    body_defs.add(x.attr)
        for fn in fns:
            me = {"self", "cls"} | ({fn.self_name} if fn.self_name else set())
            for x in ast.walk(fn.node):
                if isinstance(x, ast.Attribute) and isinstance(x.ctx, ast.Load) and x.attr.startswith("__") and not x.attr.endswith("__") \
                        and isinstance(x.value, ast.Name) and x.value.id in me:
                    ok = x.attr in body_defs
                    res.inst(f"{K.name}.{fn.name}: reads {x.value.id}.{x.attr}, defined in {K.name}: {ok}", ok=ok)
                    if not ok:
                        res.find(K.name, fn.prop or fn.name, f"reads {x.value.id}.{x.attr}, which {K.name} does not define", f"{fn.module.relpath}:{x.lineno}",
                                 f"`{x.value.id}.{x.attr}` is mangled to _{K.name}{x.attr}; only a parent class defines {x.attr}, so every call raises AttributeError")
    return res


def _stmt_nodes(g):
    return [n for n in g.nodes if n.ast is not None and not isinstance(n.ast, (list, ast.If, ast.For, ast.While, ast.With, ast.Try)) and n.kind not in ("test", "foriter", "fornext")]


def _cache_fields(ctx, K, g) -> set:
    """The cache of a link getter: the fields of self it both fills and returns."""
    gfl = _flow(ctx, g, K)
    gsn = g.self_name or "self"
    returned = {o.attr for r in ast.walk(gfl.node) if isinstance(r, ast.Return) and r.value is not None for o in gfl.origins(r.value)
                if isinstance(o, ast.Attribute) and is_self(o.value, gsn)}
    return {f for f in returned if any(any(is_self(a, gsn) for a in gfl.origins(r)) for r, _, _ in attr_stores(gfl.node, f, gfl))}


def _reach_settled(cfg, starts, avoid=lambda n: False):
    """Nodes reachable from starts; a test that specialisation settled (a constant) only continues on the side it takes."""
    seen, work = set(), list(starts)
    while work:
        n = work.pop()
        if n in seen or avoid(n):
            continue
        seen.add(n)
        succ = n.succ
        if n.kind == "test" and isinstance(n.ast, ast.Constant):
            succ = [(m, l) for m, l in succ if l != ("false" if n.ast.value else "true")]
        work += [m for m, _ in succ if m not in seen]
    return seen


def rule_linkcache(ctx) -> RuleResult:
    res = RuleResult(
        "C20.LINKCACHE",
        "C20",
        "every link setter that records the partner in the metadata also re-binds (or resets) the cache field its getter "
        "fills and returns — and where the class' metadata setter resolves the partners through that getter (EM surveys: "
        "the shared dictionary is pushed to getattr(self, <link>)), it does so BEFORE the metadata is handed over on every "
        "path: otherwise a re-link answers / propagates to the previously cached partner; and the cache is never bound to the "
        "new partner on a path that can still end in a refusal (an explicit raise, or a validating metadata write)",
        floor=10,
    )
    p = ctx.p
    from ..cfg import CFG

    mod, type_map, omit = em_tables(ctx)
    sites, seen = [], set()
    for K, _typ in em_classes(ctx):
        for link in type_map.values():
            m = K.lookup(link)
            if m and m[1] == "prop" and m[2].getter is not None and m[2].setter is not None and m[2].setter not in seen:
                seen.add(m[2].setter)
                sites.append((m[2].setter.cls, link, m[2].getter, m[2].setter))
    for cname, link in (("PotentialElectrode", "current_electrodes"), ("CurrentElectrode", "potential_electrodes")):
        pr = p.cls(cname).props.get(link)
        if pr is None or pr.getter is None or pr.setter is None:
            raise AnalysisError(f"anchor {cname}.{link} not found")
        sites.append((p.cls(cname), link, pr.getter, pr.setter))
    for K, link, g, s in sites:
        # the cache: a field of self the getter both fills and returns
        filled = _cache_fields(ctx, K, g)
        if not filled:
            res.notes.append(f"{K.name}.{link}: the getter keeps no cache — nothing to re-bind")
            continue
        if len(s.params) < 2:
            raise AnalysisError(f"anchor {K.name}.{link} setter has no value parameter")
        sn, prm = s.params[0], s.params[1]
        fl = _flow(ctx, s, K)
        cfg = CFG(fl.node)  # the body specialised to the class of self: settled tests are constants, pruned below

        def records(a) -> bool:
            """the statement hands the link to the metadata setter: self.edit_em_metadata(..) / self.metadata = .."""
            if any(any(is_self(x, sn) for x in fl.origins(r)) for r, _, _ in attr_stores(a, "metadata", fl)):
                return True
            return any(isinstance(c, ast.Call) and "edit_em_metadata" in callee_names(fl, c) for c in ast.walk(a))

        def rebinds(a, resets=True) -> bool:
            """the statement binds the cache to the new partner (or, with resets, resets it to None)"""
            for f in filled:
                for r, v, _ in attr_stores(a, f, fl):
                    if not any(is_self(x, sn) for x in fl.origins(r)):
                        continue
                    vals = fl.origins(v)
                    if (isinstance(v, ast.Name) and v.id == prm) or any(isinstance(o, ast.Name) and o.id == prm for o in vals) \
                            or (resets and vals and all(isinstance(o, ast.Constant) and o.value is None for o in vals)):
                        return True
            return False

        nodes = _stmt_nodes(cfg)
        events = [n for n in nodes if records(n.ast)]
        if not events:
            res.notes.append(f"{K.name}.{link}: the setter records nothing in the metadata")
            continue
        stores = {n for n in nodes if rebinds(n.ast)}
        # does the metadata setter of this class resolve its partners through this link's getter?
        ms = K.lookup("metadata")
        ordered = False
        if ms and ms[1] == "prop" and ms[2].setter is not None:
            mfl = _flow(ctx, ms[2].setter, K)
            msn = ms[2].setter.self_name or "self"
            for n in ast.walk(mfl.node):
                if isinstance(n, ast.Call) and isinstance(n.func, ast.Name) and n.func.id == "getattr" and len(n.args) >= 2 and any(is_self(x, msn) for x in mfl.origins(n.args[0])):
                    ordered = ordered or link in (mfl.consts(n.args[1]) or ())
                elif isinstance(n, ast.Attribute) and isinstance(n.ctx, ast.Load) and n.attr == link and is_self(n.value, msn):
                    ordered = True
            # ... or through a helper the view cannot expand (a generator of partners): what the entities that receive the
            # shared dictionary may stand for
            for r, _, _ in attr_stores(mfl.node, "_metadata", mfl):
                ordered = ordered or link in _self_links(mfl, msn, r)
        # can the metadata setter itself refuse the dictionary (explicit raise in its normalised body)?
        validating = bool(ms and ms[1] == "prop" and ms[2].setter is not None and any(isinstance(x, ast.Raise) for x in ast.walk(mfl.node)))
        before = _reach_settled(cfg, [cfg.entry], avoid=lambda n: n in stores)
        if ordered:
            ok = not any(e in before for e in events)
            what = "before the metadata is handed to the metadata setter"
        else:
            ok = not any(e in before and cfg.exit in _reach_settled(cfg, [e], avoid=lambda n: n in stores) for e in events)
            what = "on every path that records the link"
        fld = sorted(filled)[0]
        res.inst(f"{K.name}.{link} setter re-binds self.{fld} {what}", nontrivial=True, ok=ok)
        if not ok:
            if ordered:
                res.find(K.name, link, f"partner cache {fld} is not re-bound before the metadata is recorded", s.where,
                         f"the metadata setter pushes the shared dictionary to getattr(self, '{link}'), which answers from the cache: on a re-link the "
                         "new identifiers go to (and are stored for) the PREVIOUS partner, the new partner never receives them")
            else:
                res.find(K.name, link, f"partner cache {fld} is not re-bound by the link setter", s.where,
                         f"after re-linking, the getter keeps answering with the previously cached partner while the metadata names the new one "
                         "(copies and the A-B cell ids follow the stale partner until the file is re-opened)")
        # no re-bind on a path that ends in a refusal: after the cache is bound to the new partner no explicit `raise` of the
        # (normalised) setter may follow, nor — where the cache need not precede the recording (the metadata setter does not answer
        # through this link) and the metadata setter validates — the validating metadata write itself
        binds = [n for n in nodes if rebinds(n.ast, resets=False)]
        refusals = [n for n in cfg.nodes if n.kind == "raise"]
        if validating and not ordered:
            refusals += [n for n in nodes if attr_stores(n.ast, "metadata", fl)]
        after = _reach_settled(cfg, [m for b in binds for m, _ in b.succ]) if binds else set()
        hit = [r for r in refusals if r in after]
        ok = not hit
        res.inst(f"{K.name}.{link} setter: no refusal (raise / validating metadata write) can follow the re-binding of self.{fld}", nontrivial=True, ok=ok)
        if not ok:
            res.find(K.name, link, f"partner cache {fld} is re-bound on a path that ends in a refusal", f"{s.module.relpath}:{hit[0].lineno}",
                     "a link that is REJECTED (the exception is raised after the cache was bound) still changes the partner the getter answers with: "
                     "the metadata of neither entity records that partner, and later edits are propagated to / copies follow the rejected entity")
    return res


def rule_copymeta(ctx) -> RuleResult:
    res = RuleResult(
        "C20.COPYMETA",
        "C20",
        "in copy of the EM survey classes, no entry of the SOURCE's own metadata dictionary that is an entity reference "
        "(a uuid.UUID value: the link identifiers) is written into the new entity's metadata: the write is unreachable / "
        "filtered out under the assumption `isinstance(value, UUID)` (three-valued over the guards on the way, through "
        "filtering comprehensions and generator helpers); and every entry that IS transferred passes through a deep-copying "
        "call on the way (the value, the dictionary handed over, or the container iterated): the copied pair shares no nested "
        "container (waveform, channels) with the originals",
        floor=2,
    )
    p = ctx.p
    from ..cfg import CFG

    MSG = ("the copy records the ORIGINAL entities' identifiers; its metadata setter resolves the originals through them and pushes "
           "the copy's dictionary onto them: copy and original end up cross-linked")
    CONSTRUCT = "entity references (UUID values) of the source's metadata are copied to the new entity"
    MSG2 = ("the nested containers of the shared parameters (the 'Waveform' dictionary, channel lists) of the copied pair ARE the source pair's objects: "
            "an in-place edit through any of them (timing_mark, waveform) shows on all pairs in memory but is stored for one only")
    CONSTRUCT2 = "entries of the source's metadata are handed to the new entity without a deep copy"

    def deep(e) -> bool:
        """a deep-copying call occurs in the expression"""
        return any(isinstance(c, ast.Call) and (c.func.attr if isinstance(c.func, ast.Attribute) else getattr(c.func, "id", None)) == "deepcopy" for c in ast.walk(e))

    def facts(var):
        f = {"UUID": True, "notnone:" + var: True, "truthy:" + var: True}
        f.update({k: False for k in ("str", "int", "float", "bool", "list", "tuple", "dict", "set", "bytes", "ndarray")})
        return f

    def analyse(fn, fl, body, sn, events_of, depth, fresh_outer=False):
        """events_of(stmt) -> (value expression, deep-copied at the level of the dictionary?) the statement writes to the new entity
        (or, in a generator helper, yields)."""
        cfg = CFG(body)
        fresh_iter = {}

        def own(e) -> bool:
            return any(is_metadata_of(x, sn) for x in ast.walk(e))

        def comp_filtered(c):
            """None: not a comprehension over the own metadata; else whether its conditions exclude UUID values."""
            gens = [gn for gn in c.generators if any(own(y) for y in fl.values(gn.iter))]
            if not gens:
                return None
            return all(any(assume_truth(fl, t, var, facts(var)) is False for t in gn.ifs for var in [x.id for x in ast.walk(gn.target) if isinstance(x, ast.Name)])
                       for gn in gens)

        def sources(v, seen=()):
            """how the value v comes out of the source's own metadata: [('direct', var) | ('comp', filtered?) | ('gen', fn node, call)]"""
            out = []
            # a copy of the value (deepcopy(v), copy.copy(v), v.copy()) carries the same entry: the clause is about WHICH entries
            # are transferred, not about sharing (that is C12.NESTED)
            while isinstance(v, ast.Call):
                f = v.func
                nm = f.attr if isinstance(f, ast.Attribute) else getattr(f, "id", None)
                if nm in ("deepcopy", "copy") and len(v.args) == 1 and not v.keywords:
                    v = v.args[0]
                elif nm == "copy" and not v.args and isinstance(f, ast.Attribute):
                    v = f.value
                else:
                    break
            if not isinstance(v, ast.Name) or v.id in seen:
                return out
            for tgt, it in fl.stmt_loops:
                if not any(isinstance(x, ast.Name) and x.id == v.id for x in ast.walk(tgt)):
                    continue
                work = list(fl.origins(it))
                while work:
                    o = work.pop()
                    if isinstance(o, ast.Call) and isinstance(o.func, ast.Attribute) and o.func.attr == "items" and not o.args \
                            and isinstance(tgt, (ast.Tuple, ast.List)) and len(tgt.elts) == 2 and not (isinstance(tgt.elts[1], ast.Name) and tgt.elts[1].id == v.id):
                        continue  # v is the KEY of the pair
                    if isinstance(o, ast.Call) and isinstance(o.func, ast.Attribute) and o.func.attr in ("items", "values") and not o.args:
                        inner = fl.origins(o.func.value)
                        if not (len(inner) == 1 and inner[0] is o.func.value):
                            work += inner
                            continue
                    if isinstance(o, ast.Call) and isinstance(o.func, ast.Name) and o.func.id in ("list", "tuple", "sorted", "iter", "reversed", "dict") and len(o.args) == 1:
                        work += fl.origins(o.args[0])
                        continue
                    if isinstance(o, (ast.DictComp, ast.ListComp, ast.SetComp, ast.GeneratorExp)):
                        f = comp_filtered(o)
                        if f is not None:
                            out.append(("comp", f))
                        continue
                    g = fl.outer("callable", o) if isinstance(o, ast.Call) and fl.outer is not None else None
                    if g is not None and any(isinstance(y, (ast.Yield, ast.YieldFrom)) for y in ast.walk(g)):
                        out.append(("gen", g, o))
                    elif own(o):
                        out.append(("direct", v.id))
                        fresh_iter[v.id] = fresh_iter.get(v.id, True) and any(deep(x) for x in fl.origins(it))
            # an alias of such a variable
            for d in fl.defs.get(v.id, []):
                if isinstance(d, (ast.Name, ast.Call)):
                    out += sources(d, seen + (v.id,))  # a Call: only a copying call around a name is looked through (above)
            return out

        for n in _stmt_nodes(cfg):
            for v, fresh_dict in events_of(n.ast):
                if isinstance(v, ast.DictComp):
                    # a filtering comprehension handed over directly
                    f = comp_filtered(v)
                    srcs = [("comp", f)] if f is not None else []
                    fresh_value = deep(v.value) or any(deep(y) for gn in v.generators for y in fl.origins(gn.iter))
                else:
                    srcs = sources(v)
                    fresh_value = any(deep(o) for o in fl.origins(v) + [v])
                for src in srcs:
                    where = f"{fn.module.relpath}:{n.lineno}"
                    if src[0] != "gen":
                        fresh = fresh_outer or fresh_dict or fresh_value or (src[0] == "direct" and fresh_iter.get(src[1], False))
                        res.inst(f"{fn.qualname}:{n.lineno} source metadata entry -> new entity: deep-copied on the way", nontrivial=True, ok=fresh)
                        if not fresh:
                            res.find(fn.cls.name, fn.name, CONSTRUCT2, where, MSG2)
                    if src[0] == "direct":
                        var = src[1]
                        f = facts(var)
                        ok = n not in reach_assuming(cfg, lambda t, var=var, f=f: assume_truth(fl, t, var, f))
                        res.inst(f"{fn.qualname}:{n.lineno} source metadata entry -> new entity: not reached when the value is a UUID", nontrivial=True, ok=ok)
                    elif src[0] == "comp":
                        ok = src[1]
                        res.inst(f"{fn.qualname}:{n.lineno} source metadata entries -> new entity through a comprehension: filtered out when the value is a UUID", nontrivial=True, ok=ok)
                    else:
                        if depth >= 2:
                            continue
                        gnode = src[1]
                        gsn = gnode.args.args[0].arg if gnode.args.args else "self"
                        gfl = Flow(gnode, fl.tables, fl.outer)

                        def yields(a):
                            out = []
                            for y in ast.walk(a):
                                if isinstance(y, ast.Yield) and y.value is not None:
                                    out += [(e, False) for e in (y.value.elts if isinstance(y.value, ast.Tuple) else [y.value])]
                            return out

                        analyse(fn, gfl, gnode, gsn, yields, depth + 1, fresh_outer or fresh_dict or fresh_value)
                        continue
                    if not ok:
                        res.find(fn.cls.name, fn.name, CONSTRUCT, where, MSG)

    base = p.cls("BaseEMSurvey")
    seen = set()
    for K in [c for c in p.classes if not c.synthetic and base in c.mro]:
        fn = K.methods.get("copy")
        if fn is None or fn in seen:
            continue
        seen.add(fn)
        sn = fn.self_name or "self"
        fl = _flow(ctx, fn, K)

        def written(a, fl=fl, sn=sn):
            """values of the dictionaries this statement writes into ANOTHER entity's metadata"""
            dicts = []
            for c in ast.walk(a):
                if isinstance(c, ast.Call) and isinstance(c.func, ast.Attribute) and "edit_em_metadata" in callee_names(fl, c) \
                        and not any(is_self(x, sn) for x in fl.origins(c.func.value)):
                    arg = c.args[0] if c.args else next((k.value for k in c.keywords if k.arg == "entries"), None)
                    if arg is not None:
                        dicts.append(arg)
            for r, v, _ in attr_stores(a, "metadata", fl) + attr_stores(a, "_metadata", fl):
                if not any(is_self(x, sn) for x in fl.origins(r)):
                    dicts.append(v)
            out = []
            for d in dicts:
                work = [(o, False) for o in fl.origins(d)]
                while work:
                    o, fresh = work.pop()
                    if isinstance(o, ast.Call) and (o.func.attr if isinstance(o.func, ast.Attribute) else getattr(o.func, "id", None)) in ("deepcopy", "dict") and len(o.args) == 1:
                        nm = o.func.attr if isinstance(o.func, ast.Attribute) else o.func.id
                        work += [(x, fresh or nm == "deepcopy") for x in fl.origins(o.args[0])]
                    elif isinstance(o, ast.Dict):
                        out += [(v, fresh) for v in o.values]
                    elif isinstance(o, ast.DictComp):
                        out.append((o, fresh))
            return out

        analyse(fn, fl, fl.view_node, sn, written, 0)
    return res


def rule_copyorder(ctx) -> RuleResult:
    res = RuleResult(
        "C20.COPYORDER",
        "C20",
        "in copy / copy_complement of the EM survey classes, nothing is recorded in the shared metadata THROUGH the copied "
        "partner before the statement that links it (`<new entity>.<link> = <copied partner>`): linking replaces the copied "
        "partner's dictionary by the new entity's, so an entry written earlier through a metadata-recording setter of the "
        "partner (or its edit_em_metadata) is lost on both copies",
        floor=3,
    )
    p = ctx.p
    from ..cfg import CFG
    from ..kinds import reach

    mod, type_map, omit = em_tables(ctx)
    links = set(type_map.values())
    base = p.cls("BaseEMSurvey")
    fam = [c for c in p.classes if not c.synthetic and base in c.mro]
    # properties whose setter records into the shared EM metadata (calls edit_em_metadata / assigns self.metadata)
    recording = set()
    done = set()
    for K in fam:
        for name, pr in K.props.items():
            st = pr.setter
            if st is None or st in done or name in links or name == "metadata":
                continue
            done.add(st)
            sfl = _flow(ctx, st, K)
            ssn = st.self_name or "self"
            if any(isinstance(c, ast.Call) and "edit_em_metadata" in callee_names(sfl, c) for c in ast.walk(sfl.node)) \
                    or any(any(is_self(x, ssn) for x in sfl.origins(r)) for r, _, _ in attr_stores(sfl.node, "metadata", sfl)):
                recording.add(name)
    if not recording:
        raise AnalysisError("C20.COPYORDER: no metadata-recording property setter found in the EM survey classes")
    seen = set()
    for K in fam:
        for name in ("copy", "copy_complement"):
            fn = K.methods.get(name)
            if fn is None or fn in seen:
                continue
            seen.add(fn)
            sn = fn.self_name or "self"
            fl = _flow(ctx, fn)
            cfg = CFG(fl.view_node)
            nodes = _stmt_nodes(cfg)
            inside = {id(x): n for n in nodes for x in ast.walk(n.ast)}

            def same_object(a, b) -> bool:
                if isinstance(a, ast.Name) and isinstance(b, ast.Name) and a.id == b.id:
                    return True
                oa, ob = fl.origins(a), fl.origins(b)
                return any(x is y for x in oa for y in ob if isinstance(x, ast.Call))

            for tgt, val, node in _link_sinks(fl, sn, links):
                srcs = fl.origins(val)
                if not (srcs and all(isinstance(o, ast.Call) and isinstance(o.func, ast.Attribute) and o.func.attr in COPY_CALLS for o in srcs)):
                    res.inst(f"{fn.qualname}:{node.lineno} the linked value is not a copied partner (C20.COPY decides that)")
                    continue
                sink_node = inside.get(id(node))
                if sink_node is None:
                    continue
                early = []
                for n in nodes:
                    if n is sink_node or sink_node not in reach(cfg, [m for m, _ in n.succ]):
                        continue
                    hit = False
                    for prop in recording:
                        if any(same_object(r, val) for r, _, _ in attr_stores(n.ast, prop, fl)):
                            hit = True
                    for c in ast.walk(n.ast):
                        if isinstance(c, ast.Call) and isinstance(c.func, ast.Attribute) and "edit_em_metadata" in callee_names(fl, c) and same_object(c.func.value, val):
                            hit = True
                    if hit:
                        early.append(n)
                ok = not early
                res.inst(f"{fn.qualname}:{node.lineno} nothing is recorded through the copied partner before it is linked", nontrivial=True, ok=ok)
                if not ok:
                    res.find(fn.cls.name, fn.name, "shared metadata is edited through the copied partner before the copies are linked",
                             f"{fn.module.relpath}:{early[0].lineno}",
                             "linking pushes the NEW ENTITY's dictionary onto the copied partner: the entry the partner's setter recorded just before "
                             "(e.g. 'Tx ID property' when the copy starts from the transmitters) is overwritten and missing on both copies")
    return res


def rule_partnercache(ctx) -> RuleResult:
    res = RuleResult(
        "C20.PARTNERCACHE",
        "C20",
        "whoever hands the shared dictionary to a PARTNER (EM: `<partner>._metadata = d` in BaseEMSurvey.metadata's setter; "
        "direct current: `<partner>.metadata = d` in the link setters) also re-binds (to self) or resets that partner's own "
        "link cache — the fields the link getters fill and return — otherwise, after a re-link from this side, the partner "
        "keeps answering with its PREVIOUS partner while its metadata names this entity",
        floor=2,
    )
    p = ctx.p
    from ..cfg import CFG
    from ..kinds import reach

    em_fields, dc_fields = _link_cache_fields(ctx)
    sites = []
    pr = p.cls("BaseEMSurvey").props.get("metadata")
    if pr is None or pr.setter is None:
        raise AnalysisError("anchor BaseEMSurvey.metadata setter not found")
    sites.append((p.cls("BaseEMSurvey"), "metadata", pr.setter, "_metadata", em_fields, None))
    for cname, link in (("PotentialElectrode", "current_electrodes"), ("CurrentElectrode", "potential_electrodes")):
        K = p.cls(cname)
        lp = K.props.get(link)
        if lp is None or lp.getter is None or lp.setter is None or len(lp.setter.params) < 2:
            raise AnalysisError(f"anchor {cname}.{link} not found")
        sites.append((K, link, lp.setter, "metadata", dc_fields, lp.setter.params[1]))
    if not em_fields or not dc_fields:
        raise AnalysisError("C20.PARTNERCACHE: the link getters keep no cache field")
    for K, member, st, dict_attr, fields, only in sites:
        sn = st.self_name or "self"
        fl = _flow(ctx, st, K)
        cfg = CFG(fl.view_node)
        nodes = _stmt_nodes(cfg)

        def same_object(a, b) -> bool:
            if isinstance(a, ast.Name) and isinstance(b, ast.Name) and a.id == b.id:
                return True
            return bool(fl.texts(a) & fl.texts(b))

        def fresh(v) -> bool:
            vals = fl.origins(v)
            return bool(vals) and all((isinstance(o, ast.Constant) and o.value is None) or is_self(o, sn) for o in vals)

        def rebinds_cache_of(a, partner) -> bool:
            for f in fields:
                if any(same_object(r, partner) and fresh(v) for r, v, _ in attr_stores(a, f, fl)):
                    return True
            for c in ast.walk(a):
                # setattr(<partner>, <name ranging over cache fields>, None | self)
                if isinstance(c, ast.Call) and isinstance(c.func, ast.Name) and c.func.id == "setattr" and len(c.args) == 3 and not isinstance(c.args[1], ast.Constant):
                    ks = fl.consts(c.args[1])
                    if ks and ks <= fields and same_object(c.args[0], partner) and fresh(c.args[2]):
                        return True
            return False

        for n in nodes:
            for r, _v, _ in attr_stores(n.ast, dict_attr, fl):
                ro = fl.origins(r)
                if ro and all(is_self(x, sn) for x in ro):
                    continue
                if only is not None and not any(isinstance(x, ast.Name) and x.id == only for x in ro + [r]):
                    continue
                cs = [m for m in nodes if rebinds_cache_of(m.ast, r)]
                ok = any(c is n or c in reach(cfg, [x for x, _ in n.succ]) or n in reach(cfg, [x for x, _ in c.succ]) for c in cs)
                res.inst(f"{K.name}.{member}: the partner that receives the shared dictionary gets its link cache re-bound / reset", nontrivial=True, ok=ok)
                if not ok:
                    res.find(K.name, member, "partner's link cache is not re-bound when it receives the shared dictionary", f"{st.module.relpath}:{n.lineno}",
                             "after re-linking from this side (the partner was linked to another entity before and has resolved it), the partner's getter "
                             "keeps answering with its previous partner although its metadata now records this entity; copies started from the partner "
                             "follow the stale link until the file is re-opened")
    return res


def _link_cache_fields(ctx):
    """(EM cache fields, DC cache fields): what the link getters fill and return."""
    p = ctx.p
    mod, type_map, omit = em_tables(ctx)
    em_fields, dc_fields = set(), set()
    for K, _typ in em_classes(ctx):
        for link in type_map.values():
            m = K.lookup(link)
            if m and m[1] == "prop" and m[2].getter is not None:
                em_fields |= _cached(ctx.cache, ("c20.cachefields", m[2].getter), lambda: _cache_fields(ctx, m[2].getter.cls, m[2].getter))
    for cname, link in (("PotentialElectrode", "current_electrodes"), ("CurrentElectrode", "potential_electrodes")):
        lp = p.cls(cname).props.get(link)
        if lp is not None and lp.getter is not None:
            dc_fields |= _cache_fields(ctx, p.cls(cname), lp.getter)
    return em_fields, dc_fields


def rule_cachebind(ctx) -> RuleResult:
    res = RuleResult(
        "C20.CACHEBIND",
        "C20",
        "a link cache of self (the fields the link getters fill and return) is bound to an entity SUPPLIED FROM OUTSIDE (a "
        "parameter of the function) only where the same normalised function also records the link in the metadata "
        "(edit_em_metadata / `self.metadata = ...`): a cache-only link (e.g. through a constructor keyword) is answered by the "
        "getter but recorded on neither entity, and the first metadata write through it overwrites the partner's dictionary",
        floor=2,
    )
    p = ctx.p
    em_fields, dc_fields = _link_cache_fields(ctx)
    fields = em_fields | dc_fields
    if not fields:
        raise AnalysisError("C20.CACHEBIND: the link getters keep no cache field")
    fam = [c for c in p.classes if not c.synthetic and (p.cls("BaseEMSurvey") in c.mro or p.cls("BaseElectrode") in c.mro)]
    seen = set()
    for K in fam:
        fns = list(K.methods.values()) + [f for pr in K.props.values() for f in (pr.getter, pr.setter, pr.deleter) if f is not None and f.cls is K]
        for fn in fns:
            if fn in seen or fn.kind == "staticmethod":
                continue
            seen.add(fn)
            # cheap pre-filter on the source of the function
            if not any(isinstance(x, ast.Constant) and isinstance(x.value, str) and x.value.lstrip("_") in {f.lstrip("_") for f in fields} for x in ast.walk(fn.node)) \
                    and not any(isinstance(x, ast.Attribute) and x.attr in fields for x in ast.walk(fn.node)) \
                    and not any(isinstance(x, ast.Call) and isinstance(x.func, ast.Attribute) and x.func.attr.startswith("_") for x in ast.walk(fn.node)):
                continue
            sn = fn.self_name or "self"
            fl = _flow(ctx, fn, K)
            own_params = set(fn.params[1:]) | {a.arg for a in fn.node.args.kwonlyargs}
            bound = []
            for f in sorted(fields):
                for r, v, node in attr_stores(fl.node, f, fl):
                    if any(is_self(x, sn) for x in fl.origins(r)) and any(isinstance(o, ast.Name) and o.id in own_params for o in fl.origins(v) + [v]):
                        bound.append((f, node))
            if not bound:
                continue
            records = any(isinstance(c, ast.Call) and "edit_em_metadata" in callee_names(fl, c) for c in ast.walk(fl.node)) \
                or any(any(is_self(x, sn) for x in fl.origins(r)) for r, _, _ in attr_stores(fl.node, "metadata", fl))
            for f, node in bound:
                res.inst(f"{fn.qualname}: self.{f} bound to a supplied entity, link recorded in the metadata: {records}", nontrivial=True, ok=records)
                if not records:
                    res.find(fn.cls.name, fn.prop or fn.name, f"link cache {f} is bound to a supplied entity without recording the link", f"{fn.module.relpath}:{node.lineno}",
                             "the getter answers with that entity, but neither entity's metadata records the link; the first metadata access / edit through "
                             "this entity then pushes its own (default) dictionary onto the partner and overwrites the partner's identifiers")
    return res


def rule_renumber(ctx) -> RuleResult:
    res = RuleResult(
        "C20.RENUMBER",
        "C20",
        "where copy / copy_complement re-number the shared reference ids of BOTH copies (stores to `<copy>.<id property>.values`, "
        "id property = a ReferencedData-valued property of the survey classes: ab_cell_id, tx_id_property), every re-numbered "
        "array is computed through ONE common table: the new values of all of them depend (data flow through the locals) on a "
        "common read of the ids of one entity — ranking each array by its own ids only lets the two copies disagree",
        floor=2,
    )
    p = ctx.p
    fam = [c for c in p.classes if not c.synthetic and (p.cls("BaseEMSurvey") in c.mro or p.cls("BaseElectrode") in c.mro)]
    idprops = set()
    for K in fam:
        for name, pr in K.props.items():
            if pr.getter is not None and pr.getter.node.returns is not None and any(
                    (isinstance(x, ast.Name) and x.id == "ReferencedData") or (isinstance(x, ast.Attribute) and x.attr == "ReferencedData")
                    or (isinstance(x, ast.Constant) and isinstance(x.value, str) and "ReferencedData" in x.value) for x in ast.walk(pr.getter.node.returns)):
                idprops.add(name)
    if not idprops:
        raise AnalysisError("C20.RENUMBER: no ReferencedData-valued property found in the survey classes")
    seen = set()
    for K in fam:
        for name in ("copy", "copy_complement"):
            fn = K.methods.get(name)
            if fn is None or fn in seen:
                continue
            seen.add(fn)
            fl = _flow(ctx, fn)
            # stores into an array held in a local (`ids[mask] = rank + 1`) make that local depend on the stored value
            extra: dict = {}
            for n in ast.walk(fl.node):
                if isinstance(n, (ast.Assign, ast.AugAssign)):
                    for t in (n.targets if isinstance(n, ast.Assign) else [n.target]):
                        if isinstance(t, ast.Subscript) and isinstance(t.value, ast.Name):
                            extra.setdefault(t.value.id, []).extend([n.value, t.slice])

            def subst_env(e, env):
                from ._c20_sem import _rewrite

                return _rewrite(e, lambda x: env.get(x.id) if isinstance(x, ast.Name) and isinstance(x.ctx, ast.Load) and x.id in env else None)

            def deps(e, env, used=frozenset()) -> set:
                out = set()
                work = [e]
                while work:
                    x = work.pop()
                    if isinstance(x, ast.Attribute) and x.attr in idprops and isinstance(x.ctx, ast.Load):
                        # a read of an entity's ids: WHICH entity is part of the read, not a further dependency
                        out |= {t + "." + x.attr for t in fl.texts(subst_env(x.value, env))}
                        continue
                    if isinstance(x, (ast.ListComp, ast.SetComp, ast.GeneratorExp, ast.DictComp)):
                        # comprehension variables are local to it: they depend on what its own loops range over
                        own = {t.id for g in x.generators for t in ast.walk(g.target) if isinstance(t, ast.Name)}
                        for c in ast.iter_child_nodes(x):
                            out |= deps(c, env, used | own)
                        continue
                    if isinstance(x, ast.Name) and isinstance(x.ctx, ast.Load) and x.id not in env and x.id not in used:
                        for d in fl.defs.get(x.id, []) + extra.get(x.id, []):
                            out |= deps(d, env, used | {x.id})
                    work += list(ast.iter_child_nodes(x))
                return out

            # the re-numbering stores, one instance per element of the literal loops they sit in
            instances = []
            def visit(stmts, env):
                for st in stmts:
                    if isinstance(st, ast.For) and isinstance(st.target, ast.Name):
                        els = fl.elements(st.iter)
                        if els and not any(isinstance(e, ast.Call) and isinstance(e.func, ast.Name) and e.func.id == "__elem__" for e in els) and len(els) <= 4:
                            for e in els:
                                visit(st.body, {**env, st.target.id: subst_env(e, env)})
                            continue
                    if isinstance(st, ast.Assign):
                        for t in st.targets:
                            if isinstance(t, ast.Attribute) and t.attr == "values" and isinstance(t.value, ast.Attribute) and t.value.attr in idprops:
                                who = "|".join(sorted(fl.texts(subst_env(t.value.value, env))))
                                instances.append((who, t.value.attr, deps(st.value, env), st))
                    for fld in ("body", "orelse", "finalbody"):
                        blk = getattr(st, fld, None)
                        if isinstance(blk, list) and blk and isinstance(blk[0], ast.stmt):
                            visit(blk, env)
                    for h in getattr(st, "handlers", []) or []:
                        visit(h.body, env)

            visit(fl.node.body, {})
            for prop in sorted({i[1] for i in instances}):
                group = [i for i in instances if i[1] == prop]
                if len({i[0] for i in group}) < 2:
                    continue  # one entity only: nothing to agree with
                common = set.intersection(*[i[2] for i in group])
                ok = bool(common)
                res.inst(f"{fn.qualname}: the {len(group)} re-numbered {prop} arrays share a table built from {[c[-60:] for c in sorted(common)[:2]]}", nontrivial=True, ok=ok)
                if not ok:
                    res.find(fn.cls.name, fn.name, f"the copies' {prop} values are re-numbered without a common table", f"{fn.module.relpath}:{group[0][3].lineno}",
                             "each copy's ids are ranked among its own ids only: when one copy holds an id the other does not, the same number names "
                             "different dipoles / loops on the two copies (the copied readings refer to another transmitter than in the original)")
    return res


RULES = [rule_keys, rule_prop, rule_copy, rule_store, rule_mangle, rule_linkcache, rule_copymeta, rule_copyorder, rule_partnercache, rule_cachebind, rule_renumber]
