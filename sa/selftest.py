"""Testing the checker both ways (DESIGN §2.8).

Mutants: one property-breaking source edit each (applied as an in-memory
overlay of the parsed tree — nothing is written under /repo or /verif), each
must be reported by a finding that names the mutated site.  Twins:
behaviour-preserving edits that must stay silent.  Generators live in
sa/mutants/cNN.py and are computed from the current tree (AST positions), so
they follow the code instead of freezing text.
"""

from __future__ import annotations

import ast
import importlib
import re
import multiprocessing as mp
import os
import time
import traceback
from dataclasses import dataclass, field

from .model import AnalysisError, Project


@dataclass
class Variant:
    vid: str
    prop: str
    kind: str  # 'mutant' | 'twin'
    describe: str
    overlay: dict  # relpath -> new source
    expect: list = field(default_factory=list)  # substrings, one of which must occur in a new finding's "cls.member"
    rule: str | None = None  # rule expected to report (prefix match), optional


# ------------------------------------------------------------------ source edits
class Src:
    """Edits on one module's source by AST node positions."""

    def __init__(self, mod):
        self.mod = mod
        self.lines = mod.source.replace("\r\n", "\n").split("\n")

    def text(self):
        return "\n".join(self.lines)

    @staticmethod
    def _indent(line):
        return line[: len(line) - len(line.lstrip())]

    def delete_stmt(self, node):
        """Replace a statement by `pass` (keeps blocks non-empty)."""
        s = Src(self.mod)
        ind = self._indent(s.lines[node.lineno - 1])
        s.lines[node.lineno - 1 : node.end_lineno] = [ind + "pass"]
        return s.text()

    def replace_stmt(self, node, new_lines):
        s = Src(self.mod)
        ind = self._indent(s.lines[node.lineno - 1])
        s.lines[node.lineno - 1 : node.end_lineno] = [ind + ln for ln in new_lines]
        return s.text()

    def replace_expr(self, node, new_text):
        s = Src(self.mod)
        if node.lineno == node.end_lineno:
            ln = s.lines[node.lineno - 1]
            s.lines[node.lineno - 1] = ln[: node.col_offset] + new_text + ln[node.end_col_offset :]
        else:
            first = s.lines[node.lineno - 1][: node.col_offset] + new_text
            last = s.lines[node.end_lineno - 1][node.end_col_offset :]
            s.lines[node.lineno - 1 : node.end_lineno] = [first + last]
        return s.text()

    def swap_stmts(self, a, b):
        """Swap two statements of the same block (a before b)."""
        s = Src(self.mod)
        la = s.lines[a.lineno - 1 : a.end_lineno]
        lb = s.lines[b.lineno - 1 : b.end_lineno]
        mid = s.lines[a.end_lineno : b.lineno - 1]
        s.lines[a.lineno - 1 : b.end_lineno] = lb + mid + la
        return s.text()

    def move_after(self, node, anchor):
        """Move statement `node` to directly after statement `anchor` (same indentation as anchor)."""
        s = Src(self.mod)
        block = s.lines[node.lineno - 1 : node.end_lineno]
        ind_old = self._indent(block[0])
        ind_new = self._indent(s.lines[anchor.lineno - 1])
        block = [ind_new + ln[len(ind_old):] if ln.strip() else ln for ln in block]
        if node.lineno < anchor.lineno:
            s.lines[anchor.end_lineno:anchor.end_lineno] = block
            del s.lines[node.lineno - 1 : node.end_lineno]
        else:
            del s.lines[node.lineno - 1 : node.end_lineno]
            s.lines[anchor.end_lineno:anchor.end_lineno] = block
        return s.text()

    def insert_after(self, anchor, new_lines, indent_like=None):
        s = Src(self.mod)
        ind = self._indent(s.lines[(indent_like or anchor).lineno - 1])
        s.lines[anchor.end_lineno:anchor.end_lineno] = [ind + ln for ln in new_lines]
        return s.text()

    def insert_before(self, anchor, new_lines):
        s = Src(self.mod)
        ind = self._indent(s.lines[anchor.lineno - 1])
        s.lines[anchor.lineno - 1 : anchor.lineno - 1] = [ind + ln for ln in new_lines]
        return s.text()


def apply_unified_diff(diff_text: str, read) -> dict:
    """Apply a `git diff` (text files, modifications only) in memory.  `read(relpath)` returns the current text.
    Returns {relpath: new text}."""
    out = {}
    files = re.split(r"^diff --git .*$", diff_text, flags=re.M)[1:]
    for block in files:
        m = re.search(r"^\+\+\+ b/(.+)$", block, flags=re.M)
        if not m:
            continue
        rel = m.group(1).strip()
        src = read(rel).replace("\r\n", "\n").split("\n")
        hunks = re.split(r"^@@ .*?@@.*$", block, flags=re.M)[1:]
        heads = re.findall(r"^@@ -(\d+)(?:,(\d+))? \+(\d+)(?:,(\d+))? @@", block, flags=re.M)
        res = []
        pos = 0
        for (a, _al, _b, _bl), body in zip(heads, hunks):
            lines = [ln for ln in body.split("\n")[1:] if not ln.startswith("\\")]
            while lines and lines[-1] == "":
                lines.pop()
            old = [ln[1:] for ln in lines if ln.startswith((" ", "-")) or ln == ""]
            new_ = [ln[1:] for ln in lines if ln.startswith((" ", "+")) or ln == ""]
            start = int(a) - 1
            found = None
            for off in sorted(range(-40, 41), key=abs):
                s0 = start + off
                if s0 >= pos and src[s0 : s0 + len(old)] == old:
                    found = s0
                    break
            if found is None:
                raise AnalysisError(f"seeded patch does not apply to {rel} near line {start + 1}")
            res += src[pos:found] + new_
            pos = found + len(old)
        res += src[pos:]
        out[rel] = "\n".join(res)
    return out


def seeded_variants(prop: str, project: Project) -> list:
    """Kept red-team changes (/verif/seeded/<id>/) that the checks are expected to catch, replayed as mutants."""
    root = os.path.join(os.path.dirname(os.path.dirname(os.path.abspath(__file__))), "seeded")
    out = []
    if not os.path.isdir(root):
        return out
    import json

    for sid in sorted(os.listdir(root)):
        mp = os.path.join(root, sid, "meta.json")
        pp = os.path.join(root, sid, "patch.diff")
        if not (os.path.exists(mp) and os.path.exists(pp)):
            continue
        meta = json.load(open(mp))
        if meta.get("obsolete"):
            continue  # a later repair of the library made this change harmless (meta.json says which and why)
        # replayed under every property whose check is recorded as catching it (not necessarily the one it was written against)
        if prop not in (meta.get("caught_by") or {}):
            continue

        def read(rel):
            for m in project.modules.values():
                if m.relpath == rel:
                    return m.source
            with open(os.path.join(project.repo, rel), encoding="utf-8", newline="") as fh:
                return fh.read()

        try:
            overlay = apply_unified_diff(open(pp).read(), read)
        except AnalysisError:
            continue  # the tree moved on; the seed no longer applies (not a failure of the checker)
        out.append(Variant(f"{prop}-seed-{sid}", prop, "mutant", f"seeded red-team change {sid}: {meta.get('title', '')}"[:120], overlay, expect=[], rule=prop))
    return out


def benign_variants(prop: str, project: Project) -> list:
    """Kept behaviour-preserving refactorings (/verif/benign/<id>/, written by fresh sub-agents and validated with the unedited suite),
    replayed as twins under the property they were written against and under every property whose check once alarmed on them."""
    root = os.path.join(os.path.dirname(os.path.dirname(os.path.abspath(__file__))), "benign")
    out = []
    if not os.path.isdir(root):
        return out
    import json

    for bid in sorted(os.listdir(root)):
        mp, pp = os.path.join(root, bid, "meta.json"), os.path.join(root, bid, "patch.diff")
        if not (os.path.exists(mp) and os.path.exists(pp)):
            continue
        meta = json.load(open(mp))
        if prop != meta.get("written_against") and prop not in (meta.get("alarms_when_first_run") or {}):
            continue
        if prop in (meta.get("open_false_alarm") or {}):
            continue  # a recorded, still open false alarm of this property's check (DESIGN.md §16): listed by tools/benign_run.py

        def read(rel):
            for m in project.modules.values():
                if m.relpath == rel:
                    return m.source
            with open(os.path.join(project.repo, rel), encoding="utf-8", newline="") as fh:
                return fh.read()

        try:
            overlay = apply_unified_diff(open(pp).read(), read)
        except AnalysisError:
            continue  # the tree moved on; the refactoring no longer applies
        out.append(Variant(f"{prop}-benign-{bid}", prop, "twin", f"kept behaviour-preserving refactoring {bid}", overlay))
    return out


def alpha_rename(source: str, suffix: str = "_r") -> str:
    """Behaviour-preserving refactor used as a generic twin: every local variable of every function (not parameters,
    not globals / nonlocals, not names bound by `except ... as` / imports) gets a suffix; the module is re-laid-out."""
    tree = ast.parse(source)

    def locals_of(fn):
        params = {a.arg for a in fn.args.posonlyargs + fn.args.args + fn.args.kwonlyargs}
        if fn.args.vararg:
            params.add(fn.args.vararg.arg)
        if fn.args.kwarg:
            params.add(fn.args.kwarg.arg)
        banned = set(params)
        stores = set()
        stack = list(fn.body)
        while stack:
            n = stack.pop()
            if isinstance(n, (ast.FunctionDef, ast.AsyncFunctionDef, ast.Lambda, ast.ClassDef)):
                # nested scopes: names they bind as parameters must not be renamed from outside
                if not isinstance(n, ast.ClassDef):
                    a = n.args
                    banned |= {x.arg for x in a.posonlyargs + a.args + a.kwonlyargs}
                if isinstance(n, (ast.FunctionDef, ast.ClassDef)):
                    banned.add(n.name)
                    for x in ast.walk(n):
                        if isinstance(x, ast.Name) and isinstance(x.ctx, ast.Store):
                            banned.add(x.id)  # conservatively leave alone anything re-bound in a nested scope
                    continue
            if isinstance(n, (ast.Global, ast.Nonlocal)):
                banned |= set(n.names)
            if isinstance(n, ast.ExceptHandler) and n.name:
                banned.add(n.name)
            if isinstance(n, (ast.Import, ast.ImportFrom)):
                banned |= {(al.asname or al.name).split(".")[0] for al in n.names}
            if isinstance(n, ast.Name) and isinstance(n.ctx, (ast.Store, ast.Del)):
                stores.add(n.id)
            stack.extend(ast.iter_child_nodes(n))
        return {x for x in stores - banned if not x.startswith("__")}

    class R(ast.NodeTransformer):
        def __init__(self):
            self.scopes = []

        def visit_FunctionDef(self, node):
            names = locals_of(node)
            self.scopes.append(names)
            node.body = [self.visit(b) for b in node.body]
            self.scopes.pop()
            return node

        visit_AsyncFunctionDef = visit_FunctionDef

        def visit_ClassDef(self, node):
            saved, self.scopes = self.scopes, []
            node.body = [self.visit(b) for b in node.body]
            self.scopes = saved
            return node

        def visit_Name(self, node):
            if any(node.id in sc for sc in self.scopes):
                return ast.copy_location(ast.Name(id=node.id + suffix, ctx=node.ctx), node)
            return node

    tree = R().visit(tree)
    ast.fix_missing_locations(tree)
    return ast.unparse(tree) + "\n"


def reorder_members(source: str) -> str:
    """Behaviour-preserving refactor used as a generic twin: within every class body the methods / properties are
    re-ordered (groups of same-named definitions — getter, setter, deleter — stay together and in order; other
    statements keep their place); top-level functions of a module likewise."""
    tree = ast.parse(source)

    def reorder(body):
        slots = [i for i, st in enumerate(body) if isinstance(st, (ast.FunctionDef, ast.AsyncFunctionDef))]
        if len(slots) < 2:
            return body
        groups: dict = {}
        for i in slots:
            groups.setdefault(body[i].name, []).append(body[i])
        # a decorator may name another member of the class (@other.setter is by name; keep groups whole) — reverse group order
        ordered = [fn for name in reversed(list(groups)) for fn in groups[name]]
        new = list(body)
        for i, fn in zip(slots, ordered):
            new[i] = fn
        return new

    for node in ast.walk(tree):
        if isinstance(node, ast.ClassDef):
            node.body = reorder(node.body)
    ast.fix_missing_locations(tree)
    return ast.unparse(tree) + "\n"


def parses(text) -> bool:
    try:
        ast.parse(text)
        return True
    except SyntaxError:
        return False


# -------------------------------------------------------------------- running
def _finding_keys(prop, overlay):
    from .main import run_rules

    try:
        _, results = run_rules(prop, "quick", overlay=overlay)
    except AnalysisError as exc:
        return None, f"ANALYSIS-ERROR {exc}"
    except Exception:  # pragma: no cover
        return None, "INTERNAL " + traceback.format_exc()[-400:]
    out = {}
    for r in results:
        for f in r.findings:
            out[f.key] = (f.rule, f.cls, f.member, f.where)
    return out, None


def _run_variant(args):
    v, base_keys = args
    keys, err = _finding_keys(v.prop, v.overlay)
    if keys is None:
        return (v.vid, v.kind, "closed", err, [])
    new = {k: x for k, x in keys.items() if k not in base_keys}
    hits = []
    for k, (rule, cls, member, where) in new.items():
        ident = f"{cls}.{member}"
        if (not v.expect or any(e in ident or e in k for e in v.expect)) and (v.rule is None or rule.startswith(v.rule)):
            hits.append(f"{rule} {ident} @{where}")
    if v.kind == "twin":
        status = "silent" if not new else "noisy"
        return (v.vid, v.kind, status, "; ".join(f"{x[0]} {x[1]}.{x[2]}" for x in new.values()), [])
    status = "killed" if hits else ("wrong-site" if new else "survived")
    return (v.vid, v.kind, status, "; ".join(f"{x[0]} {x[1]}.{x[2]}" for x in list(new.values())[:4]), hits)


def variants_for(prop: str, project: Project) -> list[Variant]:
    try:
        mod = importlib.import_module(f"sa.mutants.{prop.lower()}")
    except ModuleNotFoundError:
        return []
    out = []
    # generic twin for every property: every module re-laid-out (ast.unparse round trip: comments dropped, lines moved)
    overlay = {}
    for m in project.modules.values():
        if m.in_scope:
            try:
                overlay[m.relpath] = ast.unparse(ast.parse(m.source)) + "\n"
            except Exception:  # pragma: no cover
                pass
    out.append(Variant(f"{prop}-twin-relayout", prop, "twin", "whole package re-laid-out with ast.unparse (formatting, comments and line numbers change)", overlay))
    if os.environ.get("VERIF_ALPHA", "1") == "1":
        ov2 = {}
        for m in project.modules.values():
            if m.in_scope:
                try:
                    ov2[m.relpath] = alpha_rename(m.source)
                except Exception:  # pragma: no cover
                    pass
        out.append(Variant(f"{prop}-twin-alpha", prop, "twin", "every local variable of every function renamed (x -> x_r), package re-laid-out", ov2))
        ov3 = {}
        for m in project.modules.values():
            if m.in_scope and "pydantic" not in m.source:  # pydantic runs validators in definition order: re-ordering is not neutral there
                try:
                    ov3[m.relpath] = reorder_members(m.source)
                except Exception:  # pragma: no cover
                    pass
        out.append(Variant(f"{prop}-twin-reorder", prop, "twin", "methods of every class re-ordered (same-named accessor groups kept together)", ov3))
    for v in list(mod.generate(project)) + seeded_variants(prop, project) + benign_variants(prop, project):
        bad = [p for p, t in v.overlay.items() if p.endswith(".py") and not parses(t)]
        if bad:
            raise AnalysisError(f"self-test variant {v.vid} does not parse ({bad})")
        out.append(v)
    return out


def run_selftest_inline(prop: str, jobs: int = 16) -> dict:
    t0 = time.time()
    project = Project()
    vs = variants_for(prop, project)
    base, err = _finding_keys(prop, None)
    if base is None:
        raise AnalysisError(f"self-test baseline failed: {err}")
    results = []
    if vs:
        with mp.get_context("fork").Pool(min(jobs, max(1, len(vs)))) as pool:
            results = pool.map(_run_variant, [(v, set(base)) for v in vs], chunksize=1)
    by = {v.vid: v for v in vs}
    mutants = [r for r in results if r[1] == "mutant"]
    twins = [r for r in results if r[1] == "twin"]
    survivors = [f"{r[0]}: {by[r[0]].describe} [{r[2]}] {r[3]}" for r in mutants if r[2] in ("survived", "wrong-site")]
    noisy = [f"{r[0]}: {by[r[0]].describe} -> {r[3]}" for r in twins if r[2] != "silent"]
    return {
        "mutants_total": len(mutants),
        "mutants_killed": sum(1 for r in mutants if r[2] == "killed"),
        "mutants_failed_closed": sum(1 for r in mutants if r[2] == "closed"),
        "twins_total": len(twins),
        "twins_silent": sum(1 for r in twins if r[2] == "silent"),
        "survivors": survivors,
        "noisy_twins": noisy,
        "closed": [f"{r[0]}: {r[3][:120]}" for r in results if r[2] == "closed"],
        "samples": [f"{r[0]}: {by[r[0]].describe} -> {r[2]} {r[4][:1]}" for r in results[:8]],
        "wall_s": round(time.time() - t0, 2),
    }


def run_selftest(prop: str, jobs: int = 16) -> int:
    try:
        st = run_selftest_inline(prop, jobs)
    except AnalysisError as exc:
        print(f"ANALYSIS-ERROR property={prop}: {exc}")
        return 2
    print(f"== self-test {prop}: mutants {st['mutants_killed']}/{st['mutants_total']} killed "
          f"({st['mutants_failed_closed']} failed closed), twins {st['twins_silent']}/{st['twins_total']} silent, {st['wall_s']} s")
    for s in st["survivors"]:
        print("  SURVIVOR", s)
    for s in st["noisy_twins"]:
        print("  NOISY-TWIN", s)
    for s in st["closed"]:
        print("  closed", s)
    return 2 if (st["survivors"] or st["noisy_twins"]) else 0
