"""Three-valued truth of conditions over named ATOMS, and reachability pruned by it.

An atom is the canonical text of an elementary condition after (a) expanding single-assignment locals (named booleans,
aliases), (b) renaming locals to roles, (c) reducing negative spellings to their positive atom:
    X is not None  -> not (X is None)        a != b -> not (a == b)        a not in b -> not (a in b)      a is not b -> not (a is b)
so `if not (A and B): return` / `if A: if B: ...` / `ok = A and B; if not ok: return` evaluate alike.
facts: {atom text: bool}.  Unknown atoms make the result None (both branches feasible).
"""

from __future__ import annotations

import ast
from collections import deque

from .model import unparse
from .normalize import expanded
from .roles import canon


class Atoms:
    def __init__(self, fn_node, roles: dict | None = None, sa_defs=None):
        from .normalize import single_assignments

        self.node = fn_node
        self.roles = roles or {}
        base = sa_defs if sa_defs is not None else single_assignments(fn_node)
        # a local that has a ROLE keeps it: it is not replaced by what it was bound from
        self.sa = {k: v for k, v in base.items() if k not in self.roles}

    def text(self, e) -> str:
        return canon(expanded(e, self.node, self.sa), self.roles)

    def atom(self, e):
        """(atom text, positive?)"""
        if isinstance(e, ast.Compare) and len(e.ops) == 1:
            op, l, r = e.ops[0], self.text(e.left), self.text(e.comparators[0])
            if isinstance(op, ast.Is):
                return f"{l} is {r}", True
            if isinstance(op, ast.IsNot):
                return f"{l} is {r}", False
            if isinstance(op, ast.Eq):
                return f"{l} == {r}", True
            if isinstance(op, ast.NotEq):
                return f"{l} == {r}", False
            if isinstance(op, ast.In):
                return f"{l} in {r}", True
            if isinstance(op, ast.NotIn):
                return f"{l} in {r}", False
        return self.text(e), True

    def truth(self, test, facts: dict):
        t = expanded(test, self.node, self.sa) if isinstance(test, ast.Name) else test
        if isinstance(t, ast.UnaryOp) and isinstance(t.op, ast.Not):
            v = self.truth(t.operand, facts)
            return None if v is None else not v
        if isinstance(t, ast.BoolOp):
            vals = [self.truth(v, facts) for v in t.values]
            if isinstance(t.op, ast.And):
                if any(v is False for v in vals):
                    return False
                return True if all(v is True for v in vals) else None
            if any(v is True for v in vals):
                return True
            return False if all(v is False for v in vals) else None
        if isinstance(t, ast.Constant):
            return bool(t.value)
        a, pos = self.atom(t)
        if a in facts:
            return facts[a] if pos else not facts[a]
        return None

    def atoms_of(self, test) -> set:
        """all atom texts a test consults"""
        t = expanded(test, self.node, self.sa) if isinstance(test, ast.Name) else test
        if isinstance(t, ast.UnaryOp) and isinstance(t.op, ast.Not):
            return self.atoms_of(t.operand)
        if isinstance(t, ast.BoolOp):
            return set().union(*[self.atoms_of(v) for v in t.values])
        return {self.atom(t)[0]}


def reach_facts(g, starts, atoms: Atoms, facts: dict, avoid=lambda n: False, stop=lambda n: False):
    seen, dq = set(), deque(starts)
    while dq:
        n = dq.popleft()
        if n in seen or avoid(n):
            continue
        seen.add(n)
        if stop(n):
            continue
        succ = n.succ
        if n.kind == "test" and n.ast is not None:
            v = atoms.truth(n.ast, facts)
            if v is True:
                succ = [(m, l) for m, l in succ if l != "false"]
            elif v is False:
                succ = [(m, l) for m, l in succ if l != "true"]
        for m, _ in succ:
            if m not in seen:
                dq.append(m)
    return seen
