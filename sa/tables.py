"""Tables extracted from the source on every run (DESIGN §2.1): KEY_MAP, the
dispatch lists of H5Writer.update_field, the skip list of write_attributes,
the attributes each writer handler reads from the entity."""

from __future__ import annotations

import ast

from .model import AnalysisError, Project, chain, unparse


def const_seq(proj: Project, mod, node, cls=None):
    """Evaluate a list/tuple/set literal of constants, or a Name bound to one at
    module / class level."""
    if isinstance(node, (ast.List, ast.Tuple, ast.Set)):
        out = []
        for e in node.elts:
            if not isinstance(e, ast.Constant):
                return None
            out.append(e.value)
        return out
    if isinstance(node, ast.Name):
        if cls is not None and node.id in cls.class_assigns:
            return const_seq(proj, mod, cls.class_assigns[node.id][0], cls)
        r = proj.resolve_name(mod, node.id)
        if r and r[0] == "assign":
            return const_seq(proj, r[1][0], r[1][1])
    if isinstance(node, ast.Attribute):
        ch = chain(node)
        if ch and ch[0] in ("cls", "self") and cls is not None and len(ch) == 2:
            m = cls.lookup(ch[1])
            if m and m[1] == "assign":
                return const_seq(proj, m[0].module, m[2], m[0])
    return None


class WriterTables:
    def __init__(self, proj: Project):
        self.p = proj
        utils = proj.module("shared/utils.py")
        self.key_map = proj.const_dict(utils, "KEY_MAP")
        self.dataset_keys = [k for k in self.key_map if k == k.lower()]
        self.writer_mod = proj.module("io/h5_writer.py")
        self.writer = proj.cls("H5Writer")
        self._dispatch()
        self._skip()
        self._handler_reads()

    # update_field dispatcher ------------------------------------------------
    def _dispatch(self):
        """route table of H5Writer.update_field, by symbolic evaluation: for every attribute string the function can
        distinguish, the writer method reached when `attribute == <that string>` (kind-pruned reachability on the
        normalised body: helpers expanded, hoisted lists substituted; elif chains, guard clauses with early returns
        and dict-dispatch tables all evaluate to the same table)."""
        from .cfg import CFG
        from .kinds import reach
        from .normalize import Normalizer, expanded

        fn0 = self.writer.methods.get("update_field")
        if fn0 is None:
            raise AnalysisError("anchor H5Writer.update_field not found")
        params = fn0.params
        if len(params) < 4:
            raise AnalysisError("H5Writer.update_field: unexpected signature")
        self.uf_entity, self.uf_attr = params[2], params[3]
        fn = Normalizer(self.p).view(fn0)
        from .normalize import unroll_row_loops
        import dataclasses as _dc

        _node, _k = unroll_row_loops(fn.node)  # a dispatch written as a literal row table walked by a for..else
        if _k:
            fn = _dc.replace(fn, node=_node)
        attr = self.uf_attr
        writer_methods = set(self.writer.methods)

        # candidate attribute strings: everything the attribute parameter is compared with / looked up in
        cands: list[str] = []

        def add_seq(node):
            if isinstance(node, (ast.List, ast.Tuple, ast.Set)):
                for e in node.elts:
                    if isinstance(e, ast.Constant) and isinstance(e.value, str) and e.value not in cands:
                        cands.append(e.value)
            elif isinstance(node, ast.Dict):
                for k in node.keys:
                    if isinstance(k, ast.Constant) and isinstance(k.value, str) and k.value not in cands:
                        cands.append(k.value)
            else:
                seq = const_seq(self.p, self.writer_mod, node, self.writer)
                for v in seq or []:
                    if v not in cands:
                        cands.append(v)

        dict_tables = []  # (dict node) used as dispatch tables on the attribute
        for n in ast.walk(fn.node):
            if isinstance(n, ast.Compare) and len(n.ops) == 1 and isinstance(n.left, ast.Name) and n.left.id == attr:
                if isinstance(n.ops[0], (ast.In, ast.NotIn)):
                    add_seq(expanded(n.comparators[0], fn.node))
                elif isinstance(n.ops[0], (ast.Eq, ast.NotEq)) and isinstance(n.comparators[0], ast.Constant):
                    add_seq(ast.List(elts=[n.comparators[0]], ctx=ast.Load()))
            # D.get(attribute, default) / D[attribute]
            tbl = None
            if isinstance(n, ast.Call) and isinstance(n.func, ast.Attribute) and n.func.attr == "get" and n.args and isinstance(n.args[0], ast.Name) and n.args[0].id == attr:
                tbl = (expanded(n.func.value, fn.node), n.args[1] if len(n.args) > 1 else None, n)
            if isinstance(n, ast.Subscript) and isinstance(n.slice, ast.Name) and n.slice.id == attr and isinstance(n.ctx, ast.Load):
                tbl = (expanded(n.value, fn.node), None, n)
            if tbl is not None and isinstance(tbl[0], ast.Dict):
                add_seq(tbl[0])
                dict_tables.append(tbl)
        if not cands:
            raise AnalysisError("H5Writer.update_field: dispatch on the attribute not found")

        # membership tests against a local table: put the table's literal in place, so that the tests can be evaluated
        from .normalize import single_assignments
        import copy as _copy

        sa_defs = single_assignments(fn.node)

        class _Lit(ast.NodeTransformer):
            def visit_Compare(self, n):
                self.generic_visit(n)
                if len(n.ops) == 1 and isinstance(n.ops[0], (ast.In, ast.NotIn)) and isinstance(n.comparators[0], ast.Name) \
                        and isinstance(sa_defs.get(n.comparators[0].id), (ast.Dict, ast.List, ast.Tuple, ast.Set)):
                    n.comparators = [ast.copy_location(_copy.deepcopy(sa_defs[n.comparators[0].id]), n.comparators[0])]
                return n

        fn.node.body = [_Lit().visit(st) for st in fn.node.body]
        ast.fix_missing_locations(fn.node)
        g = CFG(fn.node)

        def method_of(e):
            ch = chain(e)
            if ch and ch[0] in ("cls", "H5Writer", "self") and len(ch) == 2 and ch[1] in writer_methods:
                return ch[1]
            return None

        def handler_for(route):
            facts = {"const:" + attr: route}
            nodes = reach(g, [g.entry], attr, facts)
            calls = []
            for nd in nodes:
                if nd.ast is None or isinstance(nd.ast, list) or nd.kind == "with":
                    continue
                src = nd.ast
                for c in ast.walk(src):
                    if not isinstance(c, ast.Call):
                        continue
                    m = method_of(c.func)
                    if m is None and isinstance(c.func, (ast.Name, ast.Subscript, ast.Call)):
                        # indirect: the callee is selected from a table keyed by the attribute
                        f = expanded(c.func, fn.node)
                        for d, default, site in dict_tables:
                            if any(x is site for x in ast.walk(f)) or unparse(f) == unparse(expanded(site, fn.node)):
                                hit = None
                                for k, v in zip(d.keys, d.values):
                                    if isinstance(k, ast.Constant) and k.value == route:
                                        hit = v
                                m = method_of(hit) if hit is not None else (method_of(default) if default is not None else None)
                    if m is not None and m.startswith(("write_", "update_")) and m not in calls:
                        calls.append(m)
            if "write_entity_type" in calls:
                return "inline:entity_type"
            real = [c for c in calls if c != "write_entity_type"]
            if len(real) == 1:
                return real[0]
            return None if not real else "ambiguous:" + ",".join(sorted(real))

        self.routes = {}
        self.route_groups = []
        OTHER = "\x00<any other attribute>"
        self.fallback = handler_for(OTHER)
        if self.fallback != "write_attributes":
            raise AnalysisError(f"H5Writer.update_field: fallback branch is {self.fallback!r}, expected write_attributes")
        by_handler: dict = {}
        for r in cands:
            h = handler_for(r)
            if h is None or h.startswith("ambiguous"):
                raise AnalysisError(f"h5_writer.py:{fn0.node.lineno}: unrecognised dispatcher branch for attribute {r!r} ({h})")
            if h == self.fallback:
                continue  # compared with, but handled like any other attribute
            self.routes[r] = h
            by_handler.setdefault(h, []).append(r)
        for h, rs in by_handler.items():
            self.route_groups.append((rs, h))
        self.value_routes = [r for r, h in self.routes.items() if h == "write_data_values"]
        self.array_routes = [r for r, h in self.routes.items() if h == "write_array_attribute"]
        self.dedicated_routes = [
            r for r, h in self.routes.items() if h not in ("write_data_values", "write_array_attribute")
        ]

    # write_attributes skip list ----------------------------------------------
    def _skip(self):
        fn = self.writer.methods.get("write_attributes")
        if fn is None:
            raise AnalysisError("anchor H5Writer.write_attributes not found")
        self.skip_keys: list[str] = []
        loop = None
        for n in ast.walk(fn.node):
            if isinstance(n, ast.For) and "attribute_map" in unparse(n.iter):
                loop = n
        if loop is None:
            raise AnalysisError("H5Writer.write_attributes: loop over attribute_map not found")
        tgt = loop.target
        if not (isinstance(tgt, ast.Tuple) and len(tgt.elts) == 2):
            raise AnalysisError("H5Writer.write_attributes: unexpected loop target")
        keyvar = tgt.elts[0].id
        for n in ast.walk(loop):
            if isinstance(n, ast.If):
                for c in ast.walk(n.test):
                    if (
                        isinstance(c, ast.Compare)
                        and isinstance(c.left, ast.Name)
                        and c.left.id == keyvar
                        and isinstance(c.ops[0], ast.In)
                    ):
                        seq = const_seq(self.p, self.writer_mod, c.comparators[0], self.writer)
                        if seq is not None and any(isinstance(s, ast.Continue) for s in n.body):
                            self.skip_keys += list(seq)

    # what each handler reads from the entity ------------------------------------
    def _handler_reads(self):
        self.handler_reads: dict[str, set[str]] = {}
        for name in ("write_data_values", "write_array_attribute", "write_file_name_data",
                     "write_color_map", "write_value_map"):
            fn = self.writer.methods.get(name)
            if fn is None:
                raise AnalysisError(f"anchor H5Writer.{name} not found")
            reads = set()
            for n in ast.walk(fn.node):
                if isinstance(n, ast.Attribute) and isinstance(n.value, ast.Name) and n.value.id in (
                    "entity", "entity_type", "color_map", "reference_value_map"
                ):
                    reads.add((n.value.id, n.attr))
                if (
                    isinstance(n, ast.Call)
                    and isinstance(n.func, ast.Name)
                    and n.func.id == "getattr"
                    and len(n.args) >= 2
                    and isinstance(n.args[0], ast.Name)
                    and isinstance(n.args[1], ast.Constant)
                ):
                    reads.add((n.args[0].id, n.args[1].value))
            self.handler_reads[name] = reads
        # helpers whose `entity` parameter is annotated with a class: their reads are persisted fields of that class
        self.typed_handler_reads: dict[str, set[str]] = {}
        for name, fn in self.writer.methods.items():
            for a in fn.node.args.args:
                if a.arg == "entity" and isinstance(a.annotation, ast.Name) and a.annotation.id not in ("Entity", "Data"):
                    names = {
                        n.attr for n in ast.walk(fn.node)
                        if isinstance(n, ast.Attribute) and isinstance(n.value, ast.Name) and n.value.id == "entity" and isinstance(n.ctx, ast.Load)
                    }
                    self.typed_handler_reads.setdefault(a.annotation.id, set()).update(names - {"workspace"})

    # ------------------------------------------------------------------------
    def covers(self, route: str | None, field: str, amap_fields: set[str], cls=None) -> bool:
        """Does update_field(entity, route) write backing field `field`?"""
        if route is None:
            return False
        h = self.routes.get(route)
        if h == "write_data_values":
            if field == "_" + route:
                return True
            # FilenameData branch writes entity.file_name together with the blob
            if route == "values" and cls is not None and cls.is_subclass_of("FilenameData"):
                extra = {"_" + a for (_, a) in self.handler_reads["write_file_name_data"]}
                return field in extra and field != "_workspace"
            return False
        if h == "write_array_attribute":
            return field == "_" + route and route in self.key_map
        if h == "write_color_map":
            return field == "_color_map"
        if h == "write_value_map":
            return field == "_value_map"
        if h == "write_property_groups":
            return field == "_property_groups"
        if h == "inline:entity_type":
            return field == "_entity_type"
        # fallback: write_attributes
        return field in amap_fields
