"""Tables extracted from the source on every run (DESIGN §2.1): KEY_MAP, the
dispatch lists of H5Writer.update_field, the skip list of write_attributes,
the attributes each writer handler reads from the entity."""

from __future__ import annotations

import ast

from .model import AnalysisError, Project, chain, unparse


def const_seq(proj: Project, mod, node, cls=None):
    """Evaluate a list/tuple/set literal of constants, or a Name bound to one at
    module / class level."""
    if isinstance(node, (ast.List, ast.Tuple, ast.Set)):
        out = []
        for e in node.elts:
            if not isinstance(e, ast.Constant):
                return None
            out.append(e.value)
        return out
    if isinstance(node, ast.Name):
        if cls is not None and node.id in cls.class_assigns:
            return const_seq(proj, mod, cls.class_assigns[node.id][0], cls)
        r = proj.resolve_name(mod, node.id)
        if r and r[0] == "assign":
            return const_seq(proj, r[1][0], r[1][1])
    if isinstance(node, ast.Attribute):
        ch = chain(node)
        if ch and ch[0] in ("cls", "self") and cls is not None and len(ch) == 2:
            m = cls.lookup(ch[1])
            if m and m[1] == "assign":
                return const_seq(proj, m[0].module, m[2], m[0])
    return None


class WriterTables:
    def __init__(self, proj: Project):
        self.p = proj
        utils = proj.module("shared/utils.py")
        self.key_map = proj.const_dict(utils, "KEY_MAP")
        self.dataset_keys = [k for k in self.key_map if k == k.lower()]
        self.writer_mod = proj.module("io/h5_writer.py")
        self.writer = proj.cls("H5Writer")
        self._dispatch()
        self._skip()
        self._handler_reads()

    # update_field dispatcher ------------------------------------------------
    def _dispatch(self):
        fn = self.writer.methods.get("update_field")
        if fn is None:
            raise AnalysisError("anchor H5Writer.update_field not found")
        params = fn.params
        if len(params) < 4:
            raise AnalysisError("H5Writer.update_field: unexpected signature")
        self.uf_entity, self.uf_attr = params[2], params[3]
        # find the if/elif chain testing the attribute parameter
        top = None
        for node in ast.walk(fn.node):
            if isinstance(node, ast.If) and self._route_test(node.test) is not None:
                top = node
                break
        if top is None:
            raise AnalysisError("H5Writer.update_field: dispatch chain not found")
        self.routes: dict[str, str] = {}  # route -> handler name | 'entity_type' inline
        self.route_groups: list[tuple[list[str], str]] = []
        node = top
        self.fallback = None
        while True:
            routes = self._route_test(node.test)
            if routes is None:
                raise AnalysisError(
                    f"h5_writer.py:{node.lineno}: unrecognised dispatcher test {unparse(node.test)[:60]}"
                )
            handler = self._handler(node.body)
            self.route_groups.append((routes, handler))
            for r in routes:
                self.routes[r] = handler
            if len(node.orelse) == 1 and isinstance(node.orelse[0], ast.If):
                node = node.orelse[0]
                continue
            self.fallback = self._handler(node.orelse) if node.orelse else None
            break
        if self.fallback != "write_attributes":
            raise AnalysisError(
                f"H5Writer.update_field: fallback branch is {self.fallback!r}, expected write_attributes"
            )
        self.value_routes = [r for r, h in self.routes.items() if h == "write_data_values"]
        self.array_routes = [r for r, h in self.routes.items() if h == "write_array_attribute"]
        self.dedicated_routes = [
            r for r, h in self.routes.items() if h not in ("write_data_values", "write_array_attribute")
        ]

    def _route_test(self, test):
        if isinstance(test, ast.Compare) and len(test.ops) == 1:
            left = test.left
            if isinstance(left, ast.Name) and left.id == self.uf_attr:
                if isinstance(test.ops[0], ast.In):
                    seq = const_seq(self.p, self.writer_mod, test.comparators[0], self.writer)
                    return list(seq) if seq is not None else None
                if isinstance(test.ops[0], ast.Eq) and isinstance(test.comparators[0], ast.Constant):
                    return [test.comparators[0].value]
        return None

    def _handler(self, body) -> str:
        calls = []
        for st in body:
            for n in ast.walk(st):
                if isinstance(n, ast.Call):
                    ch = chain(n.func)
                    if ch and ch[0] in ("cls", "H5Writer") and len(ch) == 2:
                        calls.append(ch[1])
        if len(calls) == 1 and len(body) == 1:
            return calls[0]
        if any(c == "write_entity_type" for c in calls):
            return "inline:entity_type"
        raise AnalysisError(f"h5_writer.py:{body[0].lineno}: unrecognised dispatcher branch")

    # write_attributes skip list ----------------------------------------------
    def _skip(self):
        fn = self.writer.methods.get("write_attributes")
        if fn is None:
            raise AnalysisError("anchor H5Writer.write_attributes not found")
        self.skip_keys: list[str] = []
        loop = None
        for n in ast.walk(fn.node):
            if isinstance(n, ast.For) and "attribute_map" in unparse(n.iter):
                loop = n
        if loop is None:
            raise AnalysisError("H5Writer.write_attributes: loop over attribute_map not found")
        tgt = loop.target
        if not (isinstance(tgt, ast.Tuple) and len(tgt.elts) == 2):
            raise AnalysisError("H5Writer.write_attributes: unexpected loop target")
        keyvar = tgt.elts[0].id
        for n in ast.walk(loop):
            if isinstance(n, ast.If):
                for c in ast.walk(n.test):
                    if (
                        isinstance(c, ast.Compare)
                        and isinstance(c.left, ast.Name)
                        and c.left.id == keyvar
                        and isinstance(c.ops[0], ast.In)
                    ):
                        seq = const_seq(self.p, self.writer_mod, c.comparators[0], self.writer)
                        if seq is not None and any(isinstance(s, ast.Continue) for s in n.body):
                            self.skip_keys += list(seq)

    # what each handler reads from the entity ------------------------------------
    def _handler_reads(self):
        self.handler_reads: dict[str, set[str]] = {}
        for name in ("write_data_values", "write_array_attribute", "write_file_name_data",
                     "write_color_map", "write_value_map"):
            fn = self.writer.methods.get(name)
            if fn is None:
                raise AnalysisError(f"anchor H5Writer.{name} not found")
            reads = set()
            for n in ast.walk(fn.node):
                if isinstance(n, ast.Attribute) and isinstance(n.value, ast.Name) and n.value.id in (
                    "entity", "entity_type", "color_map", "reference_value_map"
                ):
                    reads.add((n.value.id, n.attr))
                if (
                    isinstance(n, ast.Call)
                    and isinstance(n.func, ast.Name)
                    and n.func.id == "getattr"
                    and len(n.args) >= 2
                    and isinstance(n.args[0], ast.Name)
                    and isinstance(n.args[1], ast.Constant)
                ):
                    reads.add((n.args[0].id, n.args[1].value))
            self.handler_reads[name] = reads
        # helpers whose `entity` parameter is annotated with a class: their reads are persisted fields of that class
        self.typed_handler_reads: dict[str, set[str]] = {}
        for name, fn in self.writer.methods.items():
            for a in fn.node.args.args:
                if a.arg == "entity" and isinstance(a.annotation, ast.Name) and a.annotation.id not in ("Entity", "Data"):
                    names = {
                        n.attr for n in ast.walk(fn.node)
                        if isinstance(n, ast.Attribute) and isinstance(n.value, ast.Name) and n.value.id == "entity" and isinstance(n.ctx, ast.Load)
                    }
                    self.typed_handler_reads.setdefault(a.annotation.id, set()).update(names - {"workspace"})

    # ------------------------------------------------------------------------
    def covers(self, route: str | None, field: str, amap_fields: set[str], cls=None) -> bool:
        """Does update_field(entity, route) write backing field `field`?"""
        if route is None:
            return False
        h = self.routes.get(route)
        if h == "write_data_values":
            if field == "_" + route:
                return True
            # FilenameData branch writes entity.file_name together with the blob
            if route == "values" and cls is not None and cls.is_subclass_of("FilenameData"):
                extra = {"_" + a for (_, a) in self.handler_reads["write_file_name_data"]}
                return field in extra and field != "_workspace"
            return False
        if h == "write_array_attribute":
            return field == "_" + route and route in self.key_map
        if h == "write_color_map":
            return field == "_color_map"
        if h == "write_value_map":
            return field == "_value_map"
        if h == "write_property_groups":
            return field == "_property_groups"
        if h == "inline:entity_type":
            return field == "_entity_type"
        # fallback: write_attributes
        return field in amap_fields
