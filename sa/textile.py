"""Parser for docs/content/geoh5_format/geoh5_file_format.textile (DESIGN §2.1):
attribute lists per section, type UUIDs, no-data values, hierarchy skeleton.
An oracle for the name tables that is independent of the code."""

from __future__ import annotations

import os
import re

from .model import AnalysisError

DOC = "docs/content/geoh5_format/geoh5_file_format.textile"


class FormatDoc:
    def __init__(self, repo: str, overlay: dict | None = None):
        path = os.path.join(repo, DOC)
        if overlay and DOC in overlay:
            self.lines = overlay[DOC].splitlines()
        else:
            if not os.path.exists(path):
                raise AnalysisError(f"format document {DOC} not found")
            with open(path, encoding="utf-8") as fh:
                self.lines = fh.read().splitlines()
        self.sections: list[tuple[int, str, list[str]]] = []  # (level, title, body lines)
        cur = None
        for ln in self.lines:
            m = re.match(r"^h([1-6])\.\s+(.*)$", ln)
            if m:
                cur = (int(m.group(1)), m.group(2).strip(), [])
                self.sections.append(cur)
            elif cur is not None:
                cur[2].append(ln)

    def _bullets(self, body, level=1):
        out = []
        for ln in body:
            m = re.match(r"^(\*+)\s+(.*)$", ln)
            if m and len(m.group(1)) == level:
                out.append(m.group(2))
        return out

    @staticmethod
    def _name(bullet: str) -> str:
        return re.split(r"\s*:\s*", bullet, maxsplit=1)[0].strip().strip("*_ ")

    def section_attributes(self, which: str) -> list[str]:
        """Attribute names of: 'Workspace', 'Groups', 'Objects', 'Data',
        'Group Types', 'Object Types', 'Data Types'."""
        titles = {
            "Group Types": "Group type attributes",
            "Object Types": "Object type attributes",
            "Data Types": "Data type attributes",
        }
        if which in titles:
            for lvl, title, body in self.sections:
                if title == titles[which]:
                    return [self._name(b) for b in self._bullets(body)]
            raise AnalysisError(f"format document: section {titles[which]!r} not found")
        # 'Attributes' heading following h2 Hierarchy / h3 Groups / Objects / Data
        parent = {"Workspace": "Hierarchy"}.get(which, which)
        seen_parent = False
        for lvl, title, body in self.sections:
            if title == parent and lvl in (2, 3):
                seen_parent = True
                continue
            if seen_parent and title == "Attributes":
                return [self._name(b) for b in self._bullets(body)]
            if seen_parent and lvl <= 3 and title != "Attributes":
                seen_parent = False
        raise AnalysisError(f"format document: attributes of {which!r} not found")

    def skeleton(self) -> list[str]:
        """Children of the project group in the hierarchy listing."""
        for lvl, title, body in self.sections:
            if title == "Hierarchy":
                return [re.split(r"\s{2,}|\s\(", b)[0].strip() for b in self._bullets(body, 3)]
        raise AnalysisError("format document: Hierarchy section not found")

    def type_containers(self) -> list[str]:
        for lvl, title, body in self.sections:
            if title == "Types" and lvl == 3:
                return [b.strip() for b in self._bullets(body, 2)]
        raise AnalysisError("format document: Types section not found")

    def type_uids(self) -> dict[str, str]:
        out = {}
        for lvl, title, body in self.sections:
            if lvl == 5:
                for b in self._bullets(body):
                    m = re.match(r"UUID\s*:\s*\{([0-9A-Fa-f-]+)\}", b)
                    if m:
                        out[title] = m.group(1).lower()
        return out

    def type_extras(self, title: str) -> tuple[list[str], list[str]]:
        """(additional attributes, additional datasets) of an h5 type section."""
        for lvl, t, body in self.sections:
            if lvl == 5 and t == title:
                attrs, dsets, mode = [], [], None
                for ln in body:
                    m = re.match(r"^(\*+)\s+(.*)$", ln)
                    if not m:
                        continue
                    if len(m.group(1)) == 1:
                        low = m.group(2).lower()
                        mode = "a" if low.startswith("additional attribute") else "d" if low.startswith("additional dataset") else None
                    elif len(m.group(1)) == 2 and mode:
                        (attrs if mode == "a" else dsets).append(self._name(m.group(2)))
                return attrs, dsets
        raise AnalysisError(f"format document: type section {title!r} not found")

    def ndv(self) -> dict[str, str]:
        out = {}
        for lvl, title, body in self.sections:
            if lvl == 5:
                for b in self._bullets(body):
                    m = re.match(r"No data value\s*:\s*(\S+)", b)
                    if m:
                        out[title] = m.group(1).replace("–", "-")
        return out
