#!/venv/bin/python
"""Run one property's rules against every kept behaviour-preserving refactoring (/verif/benign/<id>/patch.diff), applied
in memory (overlay) — nothing is written to /repo.  Any new finding or ANALYSIS-ERROR is a false alarm of the checker.

usage: tools/benign_run.py <PROP> [id-substring ...]      (exit 1 if any refactoring makes the property's check alarm)
"""
import json, multiprocessing as mp, os, sys

V = os.path.dirname(os.path.dirname(os.path.abspath(__file__)))
sys.path.insert(0, V)
from sa.model import AnalysisError, Project  # noqa: E402
from sa.selftest import _finding_keys, apply_unified_diff  # noqa: E402


def run(args):
    prop, bid, overlay, base = args
    if overlay is None:
        return bid, "does-not-apply", []
    keys, err = _finding_keys(prop, overlay)
    if keys is None:
        return bid, "fail-closed", [err[:300]]
    new = [f"{v[0]} {v[1]}.{v[2]} @{v[3]} :: {k.split('|')[-1][:120]}" for k, v in keys.items() if k not in base]
    return bid, ("noisy" if new else "silent"), new


def main():
    prop = sys.argv[1]
    filt = sys.argv[2:]
    project = Project()

    def read(rel):
        for m in project.modules.values():
            if m.relpath == rel:
                return m.source
        with open(os.path.join(project.repo, rel), encoding="utf-8", newline="") as fh:
            return fh.read()

    base, err = _finding_keys(prop, None)
    assert base is not None, err
    jobs = []
    for bid in sorted(os.listdir(os.path.join(V, "benign"))):
        pp = os.path.join(V, "benign", bid, "patch.diff")
        if not os.path.exists(pp) or (filt and not any(f in bid for f in filt)):
            continue
        try:
            ov = apply_unified_diff(open(pp).read(), read)
        except AnalysisError:
            ov = None
        jobs.append((prop, bid, ov, set(base)))
    with mp.get_context("fork").Pool(min(16, max(1, len(jobs)))) as pool:
        res = pool.map(run, jobs, chunksize=1)
    bad = opened = 0
    for bid, status, lines in res:
        if status != "silent":
            mp_ = os.path.join(V, "benign", bid, "meta.json")
            if os.path.exists(mp_) and prop in (json.load(open(mp_)).get("open_false_alarm") or {}):
                print(f"{bid}: {status} — OPEN false alarm recorded in its meta.json (DESIGN.md §16)")
                opened += 1
                continue
            bad += 1
            print(f"{bid}: {status}")
            for ln in lines[:6]:
                print("     ", ln)
    print(f"== {prop}: {len(res) - bad - opened}/{len(res)} refactorings silent" + (f" ({opened} recorded open false alarm)" if opened else ""))
    return 1 if bad else 0


if __name__ == "__main__":
    sys.exit(main())
