#!/venv/bin/python
"""Validate every kept refactoring: in a scratch worktree of /repo HEAD under /tmp (removed afterwards) the patch applies and the
unedited test-suite passes with it.  Writes the result into /verif/benign/<id>/meta.json ("suite").  usage: tools/benign_validate.py [jobs]"""
import json, os, shutil, subprocess, sys, tempfile
from concurrent.futures import ThreadPoolExecutor

V = os.path.dirname(os.path.dirname(os.path.abspath(__file__)))


def sh(cmd, cwd=None, env=None):
    r = subprocess.run(cmd, shell=True, cwd=cwd, env=env, capture_output=True, text=True, timeout=1800)
    return r.returncode, r.stdout + r.stderr


def one(bid):
    d = os.path.join(V, "benign", bid)
    wt = tempfile.mkdtemp(prefix="bval-", dir="/tmp")
    os.rmdir(wt)
    try:
        rc, out = sh(f"git -C /repo worktree add --detach {wt} HEAD -q")
        if rc:
            return bid, False, out[-200:]
        rc, out = sh(f"git apply {d}/patch.diff", cwd=wt)
        if rc:
            return bid, False, "does not apply: " + out[-200:]
        rc, out = sh("/venv/bin/python -m pytest -q -p no:cacheprovider -x --timeout=900", cwd=wt, env=dict(os.environ, PYTHONPATH=wt))
        last = out.strip().splitlines()[-1] if out.strip() else ""
        return bid, rc == 0, last
    finally:
        sh(f"git -C /repo worktree remove --force {wt}")
        shutil.rmtree(wt, ignore_errors=True)


def main():
    jobs = int(sys.argv[1]) if len(sys.argv) > 1 else 4
    ids = sorted(os.listdir(os.path.join(V, "benign")))
    bad = 0
    with ThreadPoolExecutor(jobs) as ex:
        for bid, ok, last in ex.map(one, ids):
            mp = os.path.join(V, "benign", bid, "meta.json")
            meta = json.load(open(mp)) if os.path.exists(mp) else {"id": bid, "written_against": bid.split("-")[0]}
            meta["suite"] = last
            meta["suite_passes"] = ok
            meta["how"] = "tools/benign_validate.py: scratch worktree of /repo HEAD under /tmp (removed), git apply, pytest -x with PYTHONPATH=<worktree>"
            json.dump(meta, open(mp, "w"), indent=1)
            print(bid, "ok" if ok else "FAILED", last[:80])
            bad += 0 if ok else 1
    return 1 if bad else 0


if __name__ == "__main__":
    sys.exit(main())
