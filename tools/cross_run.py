#!/venv/bin/python
"""Detection under refactoring: every red-team seed applied ON TOP of every kept behaviour-preserving refactoring it still
applies to (in memory).  The checks recorded as catching the seed must still report it (a finding that is new relative
to the refactoring alone).  usage: tools/cross_run.py [seed-id-substring ...]"""
import json, multiprocessing as mp, os, sys

V = os.path.dirname(os.path.dirname(os.path.abspath(__file__)))
sys.path.insert(0, V)
from sa.model import AnalysisError, Project  # noqa: E402
from sa.selftest import _finding_keys, apply_unified_diff  # noqa: E402


def run(job):
    sid, bid, props, ov_b, ov_sb = job
    out = []
    for p in props:
        kb, eb = _finding_keys(p, ov_b)
        ks, es = _finding_keys(p, ov_sb)
        if kb is None:
            out.append((p, "benign-alone-fails: " + (eb or "")[:80]))
            continue
        if ks is None:
            out.append((p, "closed"))  # fail-closed counts as noticed (exit 2), reported separately
            continue
        new = [k for k in ks if k not in kb]
        out.append((p, "caught" if new else "LOST"))
    return sid, bid, out


def main():
    filt = sys.argv[1:]
    project = Project()

    def reader(over):
        def read(rel):
            if over and rel in over:
                return over[rel]
            for m in project.modules.values():
                if m.relpath == rel:
                    return m.source
            with open(os.path.join(project.repo, rel), encoding="utf-8", newline="") as fh:
                return fh.read()
        return read

    benign = {}
    for bid in sorted(os.listdir(os.path.join(V, "benign"))):
        try:
            benign[bid] = apply_unified_diff(open(os.path.join(V, "benign", bid, "patch.diff")).read(), reader(None))
        except AnalysisError:
            pass
    jobs = []
    for sid in sorted(os.listdir(os.path.join(V, "seeded"))):
        if filt and not any(f in sid for f in filt):
            continue
        meta = json.load(open(os.path.join(V, "seeded", sid, "meta.json")))
        props = sorted(meta.get("caught_by") or {})
        if not props or meta.get("obsolete"):
            continue
        diff = open(os.path.join(V, "seeded", sid, "patch.diff")).read()
        files = set(l[6:].strip() for l in diff.splitlines() if l.startswith("+++ b/"))
        for bid, ov_b in benign.items():
            if not (files & set(ov_b)):
                continue  # different files: independent
            try:
                ov_s = apply_unified_diff(diff, reader(ov_b))
            except AnalysisError:
                continue  # the refactoring rewrote the lines the seed edits
            ov_sb = dict(ov_b)
            ov_sb.update(ov_s)
            jobs.append((sid, bid, props, ov_b, ov_sb))
    with mp.get_context("fork").Pool(16) as pool:
        res = pool.map(run, jobs, chunksize=1)
    lost = closed = caught = 0
    for sid, bid, out in res:
        st = [s for _, s in out]
        if any(s == "caught" for s in st):
            caught += 1
        elif any(s == "closed" for s in st):
            closed += 1
            print(f"{sid} on {bid}: fail-closed only {out}")
        else:
            lost += 1
            print(f"{sid} on {bid}: LOST {out}")
    print(f"== {len(res)} seed x refactoring combinations: {caught} caught, {closed} fail-closed only, {lost} lost")
    return 1 if lost else 0


if __name__ == "__main__":
    sys.exit(main())
