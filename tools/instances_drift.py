#!/venv/bin/python
"""Vacuity monitor: for one property, the number of instances (evaluated sites) each rule has on the clean tree and under every kept
behaviour-preserving refactoring (applied in memory).  A rule that goes quiet on a refactoring because it no longer FINDS its sites
passes vacuously: a drop in the instance count of a rule under a refactoring that touches its anchors is reported here, so that it
can be looked at (the floors in the rules catch the drop to zero only).

usage: tools/instances_drift.py <PROP> [id-substring ...]     prints `<refactoring>: <rule> <base> -> <now>` for every decrease
"""
import multiprocessing as mp, os, sys

V = os.path.dirname(os.path.dirname(os.path.abspath(__file__)))
sys.path.insert(0, V)
from sa.model import AnalysisError, Project  # noqa: E402
from sa.selftest import apply_unified_diff  # noqa: E402


def counts(args):
    prop, bid, overlay = args
    from sa.main import run_rules

    try:
        _, results = run_rules(prop, "quick", overlay=overlay)
    except Exception as exc:  # noqa: BLE001
        return bid, None, str(exc)[:200]
    return bid, {r.rule: len(r.instances) for r in results}, None


def main():
    prop, filt = sys.argv[1], sys.argv[2:]
    project = Project()

    def read(rel):
        for m in project.modules.values():
            if m.relpath == rel:
                return m.source
        with open(os.path.join(project.repo, rel), encoding="utf-8", newline="") as fh:
            return fh.read()

    _, base, err = counts((prop, "clean", None))
    assert base is not None, err
    jobs = []
    for bid in sorted(os.listdir(os.path.join(V, "benign"))):
        if filt and not any(f in bid for f in filt):
            continue
        try:
            ov = apply_unified_diff(open(os.path.join(V, "benign", bid, "patch.diff")).read(), read)
        except AnalysisError:
            continue
        jobs.append((prop, bid, ov))
    with mp.get_context("fork").Pool(16) as pool:
        res = pool.map(counts, jobs, chunksize=1)
    drops = 0
    for bid, c, err in res:
        if c is None:
            print(f"{bid}: analysis error {err}")
            continue
        for rule, n in sorted(base.items()):
            if c.get(rule, 0) < n:
                drops += 1
                print(f"{bid}: {rule} {n} -> {c.get(rule, 0)}")
    print(f"== {prop}: {drops} (refactoring, rule) pairs with fewer instances than the clean tree ({len(res)} refactorings)")


if __name__ == "__main__":
    main()
