#!/venv/bin/python
"""Writes /verif/MANIFEST.json from the table below (keeps it schema-valid)."""

import json
import os
import subprocess

HERE = os.path.dirname(os.path.dirname(os.path.abspath(__file__)))

# property -> (technique, level text, level note, design ref)
CHECKS = {
    "C01": (
        "ast table agreement (writer map vs loader slots), getter/setter key agreement, lazy-field read lint, store->persist dataflow on PropertyGroup, who-may-write on registries; must-pass-through flow rules on the open / register / fetch_children path (C01.FLOW); unlink provenance / coverage in remove_children and node-deletion guard in H5Writer.remove_entity (C01.UNLINK); every uid registry reset on re-open; loops over children read from the file are never left early (generator helpers unfolded); adoption of an existing node only for objects that are on file (C01.STALE); identifier re-assignment of registered objects (C01.IDENT)",
        "Decides structural necessary conditions of 're-open yields the live state': every key the writer emits has a loader slot, array getters fetch the key their setter writes and from the container the writer used, no method reads a lazily loaded field behind its getter, property-group edits reach the writer, registries hold weak references only. Does not decide equality of trees over all histories / GC schedules.",
        "conditions uninterpreted; python ast; own class model (MRO, properties, attribute maps)",
        "DESIGN.md §3 C01",
    ),
    "C02": (
        "format-document vs code table agreement, hard-link provenance (reaching definitions) in the writer, path rule on the parent setter; Root-link identity, re-parent conjunct check, property-group membership conversion; Type link stored before other fallible writer calls; handle denotation (which node an expression stands for) instead of spelling; provenance dataflow for property-group members; every detach reaches the file removal, every container unlinks regular children (C02.ORPHAN)",
        "Decides: skeleton / type uids / attribute names agree with the format document; every Type and parent->child link store has the writer-returned node as right-hand side and the entity's uid as key; re-parenting unlinks the old parent; no soft/external links or node copies. Does not decide validity over all histories.",
        "format document is the oracle for names; h5py hard-link semantics",
        "DESIGN.md §3 C02",
    ),
    "C03": (
        "path-sensitive store->persist dirty-set dataflow over every resolved setter, interprocedural summaries, dispatcher/route table extraction; in-place-edit-of-getter-object must-store-back rule (C03.INPLACE); writer evaluates the public getter before the backing field; every dataset writer addresses the stored dataset before deciding what to write (C03.RESET); only None may make a setter do nothing (C03.SKIP); a field that shadows another in its getter is re-stored by the setter (C03.SHADOW); every HDF5 write replaces the stored object, never modifies it in place (C03.RETYPE); None reaches the file as a removal",
        "Decides the property for its whole configuration quantifier — every (class, assignable persisted attribute) pair from the attribute maps, KEY_MAP and dedicated routes — up to value independence: on every normal path of the setter the stored field is handed, after its last store, to a writer branch that writes that field, on a receiver the gateway accepts, and the gate forwards it. Does not decide encoding correctness (C08).",
        "conditions uninterpreted except `if value is not None` / gateway-availability guards; calls do not raise unless explicit",
        "DESIGN.md §3 C03",
    ),
    "C04": (
        "insert/remove symmetry over the concatenator's stores per entity kind, re-keying reachability, record-field agreement, escape symmetry; deferred-flush, fresh-container (copy / writer substitution / dtype cast), start-index provenance and name-key routing rules; content-independent write-through of the concatenated writer and update_array_attribute (C04.SKIP); hole enumeration ordered by start index (C04.ORDER); index row re-bound on every path of delete_index_data; memoised table views reset by every table mutator (C04.MEMO); Index and Data of a name written under one label (C04.CHANNEL); table columns gathered from the sequence that labels them (C04.COLUMNS)",
        "Decides: what add_save_concatenated inserts per entity kind remove_entity scrubs; the name setter of key sources re-keys; index record field names/positions agree with the dtype literal; '/' escaping is symmetric. Does not decide the index arithmetic (tiling, start shifts).",
        "store labels extracted from literals and KEY_MAP; isinstance/hasattr branches taken as kind partition",
        "DESIGN.md §3 C04",
    ),
    "C05": (
        "dominance of the delete-permission guard, receiver-identity call-graph exploration for iterate-while-removing, sibling agreement of removal entry points, kind-pruned path pairing; one-shot and child-reaches-flat-deletion rules; Concatenator.remove_entity reaches every scrub of its kind with the deleting side agreeing with the writing side (C05.CONCAT); only containers the file layout has reach the writer's removal, interprocedural constant propagation pruned by path conditions (C05.SWEEP); aliasing of the request with the edited child list (C05.ALIAS); fields caching a child reset on removal (C05.CHILDREF); deferred deletions swept before close / no key dropped without the node (C05.DEFERRED)",
        "Decides: allow_delete guard dominates every deletion effect; no removal loop mutates the list it iterates (through calls and the child.parent back-pointer); callers of the concatenated removal agree on dropping the child; Data/PropertyGroup branches pair the list removal with the scrub and the file unlink; remove_entity reaches the flat-container deletion with the right container. Does not decide 'all references gone after any history'.",
        "abstract objects R/CHILD/WS; class-hierarchy analysis for unresolved receivers (reported chains only when the mutating receiver is R)",
        "DESIGN.md §3 C05",
    ),
    "C06": (
        "who-may-write on registries, cross-kind duplicate-test coverage, effect-before-fallible-registration ordering, guard dominance on uid reuse; insert_once-first ordering, add_children uid guard, kwargs-merged-before-test; per-iteration uid arguments of copies made in a loop (C06.FRESH); type look-up restricted to the requesting class (C06.TYPEKIND); identifier final before the entity is first shown to its parent / workspace; registry edits through loops over the registries; overrides of the copy do not reach its type; concatenated identifiers looked up in the target",
        "Decides: registries written only through insert_once; duplicate test spans entity kinds; no effect on another object precedes the fallible registration in constructors; uid reuse on copy is guarded by a lookup in the target. Does not decide uniqueness over all histories.",
        "constructor chain resolved through super().__init__",
        "DESIGN.md §3 C06",
    ),
    "C07": (
        "pairing + provenance of indices/association in remove_vertices / remove_cells, raise-before-store ordering, finite case split on value length; mask-only consumption of removal indices, element-count dependence of subset/fill, class filter breadth; must-analysis that copied cells are renumbered through the mask table on every path (C07.RENUM); no element-wise write into arrays sharing memory with the source in copy methods (C07.FRESH); per-child mask origin analysis in masked copies (C07.CHILDMASK); empty-selection guards before reductions after the geometry store (C07.EMPTY); length handling per data kind (C07.LENKIND); refusal guards independent of the lazy cache (C07.CACHEGUARD)",
        "Decides: each geometry shrink is followed by remove_children_values with the matching association and the same indices; explicit raises precede the first store; format_length pads with the class no-data value, refuses longer arrays, and the values setter stores only format_values' result. Does not decide the re-indexing arithmetic.",
        "numpy semantics as documented",
        "DESIGN.md §3 C07",
    ),
    "C08": (
        "constant agreement (code vs format document), provenance of the array handed to create_dataset, codec agreement, guard-before-lossy-cast table; no-data code not cast to the input dtype; replace-means-delete-first for dataset writers (C08.REWRITE); NDV masks not wider than the stored ones; casts on every return path of format_type; text decoded for every storage kind (C08.DECODE); strict json.dumps (C08.JSON); unsigned 32-bit key range guard",
        "Decides: no-data constants agree between writer, reader, data classes and the document; NaN<->no-data substitution is on every numeric write and float read path; every encode/decode names the same codec; lossy casts are range/type guarded. Does not decide equality of arbitrary arrays after a round trip.",
        "float32/int32 comparison of constants; numpy cast semantics",
        "DESIGN.md §3 C08",
    ),
    "C09": (
        "handle provenance (reaching definitions) for every HDF5 mutation site in the writer, idempotence of the re-save path by `not in` dominance; by-name handle shortcut restricted to non-entities (C09.HANDLE); abstract interpretation of member counts: a writer deletes only its target's entry of the parent's containers (C09.PARENT); the sweep of dead types decided by a test on the identifier (C09.TYPESWEEP); writer calls relative to the parent the container gave (C09.GIVEN)",
        "Decides: every create/delete/link store in the writer acts on a handle derived from the target entity, its parent or its type; on the close() re-save path every mutation is dominated by a `not in` test of the key it creates. Does not decide byte-level equality of other nodes.",
        "handle parameters resolved through their callers",
        "DESIGN.md §3 C09",
    ),
    "C10": (
        "who-may-call + dominance: every H5Writer reference is an _io_call argument with a writable mode constant; guard dominance in _io_call; h5py mutation API / h5py.File / _geoh5 who-may-use; open-mode provenance; reader taint; close() effects (final saves, h5repack rewrite) conditional on a writable handle (C10.REPACK); no persisting call on the load path incl. constructors (C10.LOAD); update_attribute cannot complete normally on a read-only handle (C10.FUNNEL); no re-open while a live handle is held (C10.REOPEN); requested mode never dropped; the mode the workspace was asked for restricts writes and close effects even when the handle reports another mode (C10.ASKED)",
        "Decides the property structurally for all programs: the code funnels every write through one guarded gateway, the guard dominates the call, nothing else can mutate or re-open the file writable. Assumes user code uses the public API.",
        "h5py API names; user code does not reach into private members",
        "DESIGN.md §3 C10",
    ),
    "C11": (
        "acquire/release pairing over every open site (CFG incl. finally/with), __exit__ shape, raising-property gate; close() final save on every writable path, save_as closes before copying; registries reset on every re-open path (C11.REOPEN); File.close() reached over the exceptional edges of the final save; the writable test reads the handle's mode (a remembered request may only restrict it); write-back not switchable through a public setter (C11.FLUSH)",
        "Decides: every file acquisition is stored in the gateway field, used as context manager, or closed on all paths; __exit__ closes unconditionally and does not swallow; closed-file accesses meet the raising property. Does not decide file completeness after an exception at an arbitrary point.",
        "context-manager protocol; close() itself not raising before File.close()",
        "DESIGN.md §3 C11",
    ),
    "C12": (
        "alias analysis of harvested attributes: getter returns stored object x setter stores by reference x in-place mutator on the MRO x not omitted on the copy chain; fresh-array rule for format_type; shape rules: entity-valued fields omitted, property-group member order, no kwargs leak into the subtree, type helper objects re-created; provenance rule: no copy method writes into an object traced to the source (C12.SOURCE); property-group attribute table agreement (C12.PGROUP); dict-valued harvested fields copied on harvest; nested metadata entries not handed over by reference (C12.NESTED); overrides handed to copies come from the source (C12.OVERRIDE); harvests omit _on_file (C12.HARVEST); dedup key = fetch key (C12.DEDUP); list / array fields copied on harvest; children snapshot before the copy exists (C12.SNAPSHOT); children skipped by name only where the class owns link data of that name (C12.BYNAME)",
        "Decides one necessary condition of 'edits of the copy do not show in the source': no harvested mutable attribute is shared by reference and mutated in place. Does not decide attribute-by-attribute equality of copies.",
        "omit lists read from the copy chain literals",
        "DESIGN.md §3 C12",
    ),
    "C13": (
        "delegation check of all mask_by_extent overrides to the single predicate with inverse forwarded; comparison-operator lint on the predicate and box_intersect; inverse/extent forwarding at every nested selection call and mask flow into copy(mask=) (C13.FWD); orphan-intersection must-pass-through (C13.ORPHAN); flow-sensitive taint: the blanking mask of a clipped grid derives only from predicate evaluations on the source (C13.ONCE); bounding box covers the attributes selected on and is never stale (C13.BBOX); sub-grid spans the selection (C13.SPAN); the mask handed to copy(mask=) is computed on the coordinates copy sub-samples (C13.AGREE)",
        "Decides: every override obtains its mask from shared.utils.mask_by_extent and forwards inverse; the predicate's comparisons are closed, box_intersect rejects only strictly disjoint boxes. Does not decide numerical exactness.",
        "numpy comparison semantics",
        "DESIGN.md §3 C13",
    ),
    "C14": (
        "mapper-table inversion check between the write and read pipelines; collision analysis of sentinel encodings; writer tokens cover reader tokens, flatten's None gate depends on `enabled` only, option defaults agree with the declared default, save/restore pairing (C14.FLAT); update_ui_values leaves a value unwritten only for a form read as disabled after set_enabled (C14.UPDATE); mapper order does not shadow (C14.SHADOW); set_enabled stores the own state of optional forms on every path (C14.ENABLE); write side covers every kind the read side produces (C14.COVER); forms numified before validation (C14.VALID); finiteness predicates only on floats (C14.TOTAL)",
        "Decides: each write mapper has its inverse in the read pipeline, ordering constraints hold, literal tokens agree; reports the by-construction collisions of the string sentinels. Does not decide equality of arbitrary form dictionaries.",
        "mapper lists read from list literals",
        "DESIGN.md §3 C14",
    ),
    "C15": (
        "interprocedural effect analysis (self fields, arguments, globals, shallow-copy aliasing) from every validation entry point; accumulator reset-on-every-exit dataflow; validate-before-commit ordering; decision-input rule for the dependency selector and dispatch coverage of AssociationValidator (C15.RULES); carried-state rule on the form-replacing setter (C15.STALE); truth table of requires_value against the documented hierarchy; no in-place mutation of module / class level containers (C15.SHARED); group switch decided by the value; per-pair membership; option restored when a validation raises; rule-deriving getters are pure",
        "Decides statelessness structurally: no validation entry point has a side effect that outlives the call, and setters validate before they commit. Does not decide the accept-iff-valid truth table.",
        "calls leaving ui_json/* and shared/validators.py are treated as reads",
        "DESIGN.md §3 C15",
    ),
    "C16": (
        "provenance of the cell index offset and of the data offsets in the mergers; every update of the running-offset dictionary adds the input object's own counts; drape re-indexing iterates the children; symbolic evaluation of vectorised offset scans (exclusive prefix sum), apply-before-advance ordering; grouping key determines every attribute of the merged data (C16.KEY); no create keyword re-binds the storage of another (C16.KEEP); drape index offsets accumulate the count of the array they index",
        "Decides: the offset added to each input's cells derives from vertex counts only, data offsets from the count of their association. Does not decide coordinate-wise equality of the merged object.",
        "reaching definitions inside one function",
        "DESIGN.md §3 C16",
    ),
    "C17": (
        "memoised-getter dependency closure + cache-invalidation must-follow dataflow over every setter/method on the MRO (interprocedural); rotation-operand / origin taint and sign-preserving cell sizes (C17.ROT); structured-origin agreement between stores and field reads (C17.ORIGIN); identity (not order) comparisons between vertex indices in Curve.parts (C17.PARTS); rotation sense agreement across grid classes (side x transposition); no vertex-order accumulation in parts; labels stored on every path of the parts setter; method-filled memos in the cache analysis",
        "Decides: every store to an input field of a memoised geometry getter (centroids; Curve parts) is accompanied by a cache reset on every path. Does not decide the index formulas or rotations.",
        "dependency closure does not follow identity attributes (uid, on_file, workspace, parent, entity_type, name)",
        "DESIGN.md §3 C17",
    ),
    "C18": (
        "cache-invalidation dataflow for Drillhole._locations; provenance of add_vertices arguments in validate_depth_data / validate_interval_data; permutation map-back for searchsorted in a sorted copy and all-components reduction of the interval match (C18.MATCH); one-station provenance of direction evaluations (C18.DEV); stored depths never overwritten by added ones (C18.KEEP); class-filter breadth of sort_depths (C18.SORTALL); text fill width taken from the values (C18.WIDTH); lower clamp on searchsorted-derived indices (C18.CLAMP); inverse permutation for cells after a vertex gather (C18.INVPERM); no re-ordering on the surveys data flow (C18.ORDER)",
        "Decides: _locations is reset by every store to its inputs; vertices added for depth data come from desurvey of those depths. Does not decide the path geometry.",
        "same as C17",
        "DESIGN.md §3 C18",
    ),
    "C19": (
        "guard lint over every access to optional file content in H5Reader (in-test / .get / except KeyError dominance); try-scope rule for loops over file items (C19.SCOPE); no persisting call on the load path incl. constructors (C19.LOAD); root-rebuild re-attachment (C19.REBUILD); no literal defaults for items the file lacks (C19.DEFAULT); copies of node members treated as the node; an unloadable element skips itself only (C19.ELEMENT); no raising lookup in front of a tolerant read that has a fallback (C19.FALLBACK)",
        "Decides: every subscript of optional content in the reader is guarded; unguarded subscripts only for the mandatory containers. Does not decide that unaffected entities come back unchanged.",
        "optional/mandatory classification from the format document and a named list",
        "DESIGN.md §3 C19",
    ),
    "C20": (
        "sibling table over the survey class pairs (link keys, TYPE_MAP, complements, default metadata), propagation-loop coverage, copy provenance; metadata setters reach the store on every normal path (C20.STORE); class-private name resolution (C20.MANGLE); link setters re-bind the partner cache their getter answers from (C20.LINKCACHE); no UUID-valued metadata entry copied to another entity (C20.COPYMETA); no refusal after the cache is bound; partner caches refreshed with the shared dictionary (C20.PARTNERCACHE); caches bound only where the link is recorded (C20.CACHEBIND); copy order (C20.COPYORDER); common read for re-numbered ids (C20.RENUMBER)",
        "Decides: getter key = setter key = TYPE_MAP entry per link property and class pair; metadata propagation enumerates every partner; copies are linked to copies. Does not decide visibility of edits for all edit sequences.",
        "name-mangled class constants resolved statically",
        "DESIGN.md §3 C20",
    ),
}


def built():
    rules = os.path.join(HERE, "sa", "rules")
    return sorted(p for p in CHECKS if os.path.exists(os.path.join(rules, p.lower() + ".py")))


ROUND8 = {
    "C01": "holders forward every requested child to Workspace.remove_children (C01.UNLINK forwarding clause; a filter on child.parent only if the parent setter releases before it re-binds)",
    "C02": "every member handed to the copied property group comes out of the table of copied children on every path (C02.PGMEMBER hand-over, incl. add_properties spelling)",
    "C03": "writer route table completed for dispatch by computed name (evaluated per candidate attribute); delete-on-None through a wrapped read (C03.RESET)",
    "C05": "delete permission decided by truth value, identity tests with bool constants not folded (C05.GUARD); in-place child removal unreachable once the child left the list (C05.MEMBER); removal of a concatenated group goes through a loading accessor (C05.CONCAT)",
    "C06": "find_entity returns None only after every registry was found without a live referent (C06.XLOOKUP)",
    "C07": "a geometry getter generates defaults only where no array exists, empty arrays included (C07.REGEN, path-sensitive)",
    "C08": "nothing but the strict codec between text and bytes (C08.CODEC: no error handler, no lossy string op); key conversions dominated by the key-type guard (C08.NARROW)",
    "C09": "evidence tests of the type sweep partially evaluated per caller (C09.TYPESWEEP gated evidence)",
    "C11": "every answer of the gateway comes after the raising handle property was evaluated (C11.GATE); readers return cached state of an argument only after consulting the file (C11.STALE)",
    "C12": "transfer of metadata entries never decided by truth value, comprehensions included (C12.NESTED); copied attributes reachable with all options at default (C12.PLAIN); an option that cuts children also cuts the geometry when given alone (C12.OPTION)",
    "C13": "sub-grid count not built from a count of hit flags (C13.SPAN); forwarded extent / inverse are the caller's (C13.FWD); coordinates reach the predicate unchanged (C13.COORDS)",
    "C14": "set_data_value stores into form and data cache on every path (C14.SETVALUE); getters never hand out shared mutable defaults (C14.FRESH); the writer keeps the parameter order (C14.ORDER)",
    "C15": "every method re-binding a field the validators memo reads drops the cache (C15.RESET); no validation-skipping condition reads a field stored before validating (C15.COMMIT); only `is None` exempts an element from a membership validation (C15.RULES f)",
    "C16": "every key component handed explicitly to add_data (C16.KEY reverse); collected drape arrays are the shifted objects; merge_data and create_object get the same inputs (C16.PROV)",
    "C17": "no floor division / rounding on the flow from cell sizes to centres (C17.ROT d); memoised getters never update in place an array aliased from another attribute (C17.ALIAS)",
    "C18": "desurvey never updates a parameter array or a no-copy view in place (C18.PURE); returns reached by the interval match are computed through it (C18.MAPPED)",
    "C19": "no store through a persisting setter and no early on_file flag of a type on the load path (C19.LOAD); lazy getters never replace missing stored content by a computed value (C19.INVENT)",
    "C20": "metadata entries transferred by the EM copy pass through a deep copy (C20.COPYMETA)",
}


def main():
    have = built()
    checks = []
    for pid in have:
        tech, text, note, ref = CHECKS[pid]
        checks.append(
            {
                "property_id": pid,
                "quick_cmd": f"./check {pid}",
                "thorough_cmd": f"./check {pid} --thorough",
                "evidence_file": f"/verif/evidence/{pid}.json",
                "replay_cmd_template": f"./check {pid} --replay {{path}}",
                "engine": "sa",
                "level_claimed": {"category": "other", "text": text, "design_ref": ref},
                "level_note": note,
                "technique": "static analysis: " + tech + ("; round 8 (DESIGN.md §15): " + ROUND8[pid] if pid in ROUND8 else ""),
            }
        )
    na = [
        {"property_id": pid, "reason": "static check for this property is designed (DESIGN.md §3) but not built yet in this round"}
        for pid in sorted(CHECKS)
        if pid not in have
    ]
    try:
        commits = subprocess.run(
            ["git", "-C", "/repo", "log", "--format=%h %s", "43c30a0..HEAD"], capture_output=True, text=True
        ).stdout.splitlines()
    except Exception:
        commits = []
    man = {
        "version": 1,
        "setup_cmd": "true",
        "hooks": {
            "guard": "MIRAGEOSCIENCE_GEOH5PY_VERIF",
            "enable": "no hooks: the checks analyse the source text of /repo and instrument nothing; the guard name is reserved and unused",
            "baseline_off_cmd": "cd /repo && /venv/bin/python -m pytest -ra -q -p no:cacheprovider --timeout=900 --continue-on-collection-errors",
            "source_commits": [],
            "add_only": True,
        },
        "engines": [
            {
                "name": "sa",
                "path": "/verif/sa",
                "serves_properties": have,
                "kind_free_text": "repository-specific static analyser on python ast: class model with C3 MRO and synthetic classes, normalised function views (private helpers expanded in place, hoisted constants substituted, local aliases expanded), statement CFG, forward dataflow (must-follow / dominance), three-valued path conditions over atoms, denotation of HDF5 handle expressions, effect and alias analysis, provenance, table extraction by symbolic evaluation; nothing is executed",
            }
        ],
        "checks": checks,
        "notes": (
            "All checks are static (python ast over /repo/geoh5py, parsed on every run). Rules decide on normalised code (DESIGN.md §11) and are "
            "tested both ways: at least 1698 mutants (1692 counted in DESIGN.md §16.1 plus the increments re-counted in §17.3; self-tests of the other properties also replay their round-5 seeds) incl. the 267 reportable of 279 red-team seeds (5 rounds; 11 value-level / history-dependent misses and 1 obsolete seed are listed in DESIGN.md §15 / §17) must be reported, 1233 twins incl. 240 kept behaviour-preserving refactorings (4 batches; the one open false alarm of §16, C03-d1, is closed: DESIGN.md §17.1) must stay silent; a vacuity monitor (tools/instances_drift.py) accounts for every drop of evaluated sites under a refactoring (DESIGN.md §14). Every rule set runs under a watchdog (VERIF_WATCHDOG, default 600 s): a non-terminating analysis ends as ANALYSIS-ERROR. "
            "Exit 0 = held (KNOWN-FINDING lines for "
            "recorded genuine defects, /verif/known_findings.json), 1 = VIOLATION, 2 = ANALYSIS-ERROR (anchor lost / floor not met). "
            "Repairs of genuine defects in /repo are separate 'fix:' commits: " + "; ".join(commits)
        ),
        "not_applicable": na,
    }
    with open(os.path.join(HERE, "MANIFEST.json"), "w", encoding="utf-8") as fh:
        json.dump(man, fh, indent=1)
    print(f"MANIFEST.json: {len(checks)} checks, {len(na)} not built")


if __name__ == "__main__":
    main()
