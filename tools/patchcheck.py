#!/venv/bin/python
"""Findings of one property's rules with a unified diff applied in memory (nothing is written to /repo), against the
findings on the tree as it is.

usage: tools/patchcheck.py <PROP> <patch.diff> [<patch.diff> ...]   (patches are applied one after the other)
prints `+ key` for findings that appear, `- key` for findings that disappear.
"""
import os, sys

V = os.path.dirname(os.path.dirname(os.path.abspath(__file__)))
sys.path.insert(0, V)
from sa.model import Project  # noqa: E402
from sa.selftest import _finding_keys, apply_unified_diff  # noqa: E402


def main():
    prop, patches = sys.argv[1], sys.argv[2:]
    project = Project()
    overlay = {}

    def read(rel):
        if rel in overlay:
            return overlay[rel]
        for m in project.modules.values():
            if m.relpath == rel:
                return m.source
        with open(os.path.join(project.repo, rel), encoding="utf-8", newline="") as fh:
            return fh.read()

    for pp in patches:
        overlay.update(apply_unified_diff(open(pp).read(), read))
    base, err = _finding_keys(prop, None)
    assert base is not None, err
    keys, err = _finding_keys(prop, overlay)
    if keys is None:
        print("FAIL-CLOSED", err[:500])
        return 2
    for k in sorted(set(keys) - set(base)):
        print("+", k)
    for k in sorted(set(base) - set(keys)):
        print("-", k)
    print(f"== {prop}: {len(keys)} findings with the patch, {len(base)} without")
    return 0


if __name__ == "__main__":
    sys.exit(main())
