#!/venv/bin/python
"""Run the checks against a behaviour-preserving refactoring (the dual of tools/seedcheck.py).

usage: tools/refcheck.py <candidate dir with patch.diff> <PROPERTY> [--keep <id>] [--novalidate]

1. scratch worktree of /repo HEAD under /tmp (removed afterwards): patch applies, the unedited suite passes with it.
2. patch applied to /repo (git apply), every quick check run, /repo restored (git checkout -- .).
   Any check that exits non-zero is a FALSE ALARM (or a fail-closed matcher) to be corrected in the machinery.
3. --keep stores it as /verif/benign/<id>/ (patch.diff, notes.md, meta.json); kept refactorings are replayed as twins by the self-test.
"""
import json, os, shutil, subprocess, sys, tempfile

VERIF = os.path.dirname(os.path.dirname(os.path.abspath(__file__)))
PY = "/venv/bin/python"
PROPS = [f"C{i:02d}" for i in range(1, 21)]


def sh(cmd, cwd=None, env=None, timeout=1800):
    r = subprocess.run(cmd, shell=True, cwd=cwd, env=env, capture_output=True, text=True, timeout=timeout)
    return r.returncode, r.stdout + r.stderr


def main():
    cand, prop = os.path.abspath(sys.argv[1]), sys.argv[2]
    keep = sys.argv[sys.argv.index("--keep") + 1] if "--keep" in sys.argv else None
    patch = os.path.join(cand, "patch.diff")
    rep = {"candidate": cand, "property": prop}
    assert sh("git -C /repo status --porcelain")[1].strip() == "", "/repo is not clean"
    if "--novalidate" not in sys.argv:
        wt = tempfile.mkdtemp(prefix="refcheck-", dir="/tmp")
        os.rmdir(wt)
        try:
            rc, out = sh(f"git -C /repo worktree add --detach {wt} HEAD -q")
            assert rc == 0, out
            rca, outa = sh(f"git apply {patch}", cwd=wt)
            rep["patch_applies"] = rca == 0
            if rca != 0:
                rep["error"] = outa[-300:]
                print(json.dumps(rep, indent=1))
                return 1
            rcs, outs = sh(f"{PY} -m pytest -q -p no:cacheprovider -x --timeout=900", cwd=wt, env=dict(os.environ, PYTHONPATH=wt))
            rep["suite"] = outs.strip().splitlines()[-1] if outs.strip() else ""
            rep["suite_passes"] = rcs == 0
        finally:
            sh(f"git -C /repo worktree remove --force {wt}")
            shutil.rmtree(wt, ignore_errors=True)
        if not rep["suite_passes"]:
            print(json.dumps(rep, indent=1))
            return 1
    alarms = {}
    try:
        rc, out = sh(f"git -C /repo apply {patch}")
        assert rc == 0, out
        for p in PROPS:
            rc, out = sh(f"./check {p}", cwd=VERIF)
            if rc != 0:
                lines = [ln.strip()[:300] for ln in out.splitlines() if (ln.strip().startswith("geoh5py/") and "] " in ln) or ln.startswith("ANALYSIS-ERROR")]
                alarms[p] = {"rc": rc, "lines": lines[:6]}
    finally:
        sh("git -C /repo checkout -- .")
        assert sh("git -C /repo status --porcelain")[1].strip() == "", "/repo not restored"
        for p in alarms:
            sh(f"./check {p}", cwd=VERIF)
    rep["alarms"] = alarms
    print(json.dumps(rep, indent=1))
    if keep:
        dst = os.path.join(VERIF, "benign", keep)
        os.makedirs(dst, exist_ok=True)
        shutil.copy(patch, os.path.join(dst, "patch.diff"))
        if os.path.exists(os.path.join(cand, "notes.md")):
            shutil.copy(os.path.join(cand, "notes.md"), os.path.join(dst, "notes.md"))
        json.dump({"id": keep, "written_against": prop, "suite": rep.get("suite"), "alarms_when_first_run": alarms,
                   "how": "tools/refcheck.py: scratch worktree under /tmp (removed), pytest -x with the patch; then git -C /repo apply / ./check C01..C20 / git -C /repo checkout -- ."},
                  open(os.path.join(dst, "meta.json"), "w"), indent=1)
    return 0


if __name__ == "__main__":
    sys.exit(main())
