#!/venv/bin/python
"""Validate red-team candidates in parallel scratch worktrees (under /tmp, removed afterwards) and keep the valid ones as
/verif/seeded/<PROP>-<tag><k>/ (patch.diff, demo.py, notes.md, meta.json).  Nothing is applied to /repo; which checks report a
kept seed is computed afterwards, in memory, by tools/seeds_recheck.py.

usage: tools/seed_import.py <base dir with <PROP>/<k>/{patch.diff,demo.py,notes.md}> <tag> <round number>
"""
import json, multiprocessing as mp, os, re, shutil, subprocess, sys, tempfile

V = os.path.dirname(os.path.dirname(os.path.abspath(__file__)))
PY = "/venv/bin/python"


def sh(cmd, cwd=None, env=None, timeout=1800):
    r = subprocess.run(cmd, shell=True, cwd=cwd, env=env, capture_output=True, text=True, timeout=timeout)
    return r.returncode, r.stdout + r.stderr


def validate(job):
    prop, k, cand = job
    patch, demo = os.path.join(cand, "patch.diff"), os.path.join(cand, "demo.py")
    rep = {"prop": prop, "k": k, "cand": cand}
    if not (os.path.exists(patch) and os.path.exists(demo)):
        rep["error"] = "patch.diff / demo.py missing"
        return rep
    wt = tempfile.mkdtemp(prefix="seedimp-", dir="/tmp")
    os.rmdir(wt)
    try:
        rc, out = sh(f"git -C /repo worktree add --detach {wt} HEAD -q")
        if rc:
            rep["error"] = out[-300:]
            return rep
        env = dict(os.environ, PYTHONPATH=wt)
        rep["demo_clean"] = sh(f"{PY} {demo}", cwd=wt, env=env, timeout=600)[0]
        rc, out = sh(f"git apply {patch}", cwd=wt)
        rep["applies"] = rc == 0
        if rc:
            rep["error"] = out[-300:]
            return rep
        rc, out = sh("git diff --stat | tail -1", cwd=wt)
        rep["stat"] = out.strip()
        rc, out = sh(f"{PY} -m pytest -q -p no:cacheprovider --timeout=900", cwd=wt, env=env)
        rep["suite"] = out.strip().splitlines()[-1] if out.strip() else ""
        rep["suite_ok"] = rc == 0
        rep["demo_patched"] = sh(f"{PY} {demo}", cwd=wt, env=env, timeout=600)[0]
    finally:
        sh(f"git -C /repo worktree remove --force {wt}")
        shutil.rmtree(wt, ignore_errors=True)
    rep["valid"] = rep.get("demo_clean") == 0 and rep.get("suite_ok") and rep.get("demo_patched") not in (0, None)
    return rep


def main():
    base, tag, rnd = sys.argv[1], sys.argv[2], int(sys.argv[3])
    jobs = []
    for prop in sorted(os.listdir(base)):
        if not re.fullmatch(r"C\d\d", prop):
            continue
        for k in sorted(os.listdir(os.path.join(base, prop))):
            if k.isdigit() and int(k) > 0:
                jobs.append((prop, k, os.path.join(base, prop, k)))
    with mp.get_context("fork").Pool(8) as pool:
        reps = pool.map(validate, jobs, chunksize=1)
    log_path = os.path.join(V, "seeded_log.json")
    log = json.load(open(log_path))
    kept = 0
    for r in reps:
        sid = f"{r['prop']}-{tag}{r['k']}"
        print(sid, "VALID" if r.get("valid") else "INVALID", {k: v for k, v in r.items() if k not in ("prop", "k", "cand")})
        if not r.get("valid"):
            continue
        kept += 1
        dst = os.path.join(V, "seeded", sid)
        os.makedirs(dst, exist_ok=True)
        for f in ("patch.diff", "demo.py", "notes.md"):
            if os.path.exists(os.path.join(r["cand"], f)):
                shutil.copy(os.path.join(r["cand"], f), os.path.join(dst, f))
        title = ""
        if os.path.exists(os.path.join(dst, "notes.md")):
            first = open(os.path.join(dst, "notes.md")).readline().strip()
            title = first.lstrip("# ").strip()
        meta = {"id": sid, "round": rnd, "breaks_property": r["prop"], "title": title, "needs_to_manifest": "see notes.md",
                "verified": {"demo_passes_without_patch": True, "suite_passes_with_patch": True, "suite_summary": r["suite"], "demo_fails_with_patch": True,
                             "how": "tools/seed_import.py: scratch worktree of /repo HEAD under /tmp (removed), PYTHONPATH=<worktree>, full suite, demo with and without the patch"},
                "caught_by": {}, "caught": False}
        json.dump(meta, open(os.path.join(dst, "meta.json"), "w"), indent=1)
        log.setdefault(sid, {"round": rnd})
    json.dump(log, open(log_path, "w"), indent=1)
    print(f"== kept {kept}/{len(reps)}")


if __name__ == "__main__":
    main()
