#!/bin/sh
# tools/seedall.sh <PROP> [--keep] : validate every candidate of $SEED_BASE/<PROP>/<k>/ (default /tmp/agents/out) and print one line each;
# kept seeds are named <PROP>-<k> (or <PROP>-$SEED_TAG<k> when SEED_TAG is set)
P=$1
BASE=${SEED_BASE:-/tmp/agents/out}
for k in 1 2 3; do
  [ -f $BASE/$P/$k/patch.diff ] || continue
  /venv/bin/python /verif/tools/seedcheck.py $BASE/$P/$k $P $2 $( [ -n "$2" ] && echo $P-${SEED_TAG}$k ) 2>&1 | /venv/bin/python -c "
import json,sys
try:
    r=json.load(sys.stdin)
    print('$P/$k valid=',r.get('valid'),'| suite:',r.get('suite_with_patch'),'| demo rc',r.get('demo_without_patch_rc'),r.get('demo_with_patch_rc'),'| caught:',{k:[f[:150] for f in v['findings'][:2]] for k,v in r.get('caught_by',{}).items()})
except Exception as e:
    print('$P/$k ERROR', e)
"
done
