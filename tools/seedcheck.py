#!/venv/bin/python
"""Validate a candidate breaking change and run the checks against it.

usage: tools/seedcheck.py <candidate dir with patch.diff + demo.py> <PROPERTY> [--keep <seed id>]

1. scratch worktree of /repo HEAD (under /tmp, removed afterwards): demo passes; patch applies; the unedited
   suite passes with the patch; demo fails with the patch.
2. the patch is applied to /repo itself (git apply), every quick check is run, and /repo is restored
   (git checkout -- .) straight afterwards.
3. with --keep the candidate is stored as /verif/seeded/<seed id>/ with meta.json.
"""

import json
import os
import shutil
import subprocess
import sys
import tempfile

VERIF = os.path.dirname(os.path.dirname(os.path.abspath(__file__)))
PY = "/venv/bin/python"
PROPS = [f"C{i:02d}" for i in range(1, 21)]


def sh(cmd, cwd=None, env=None, timeout=1800):
    r = subprocess.run(cmd, shell=True, cwd=cwd, env=env, capture_output=True, text=True, timeout=timeout)
    return r.returncode, (r.stdout + r.stderr)


def main():
    cand = os.path.abspath(sys.argv[1])
    prop = sys.argv[2]
    keep = sys.argv[sys.argv.index("--keep") + 1] if "--keep" in sys.argv else None
    patch = os.path.join(cand, "patch.diff")
    demo = os.path.join(cand, "demo.py")
    assert os.path.exists(patch) and os.path.exists(demo), "patch.diff and demo.py required"
    report = {"candidate": cand, "property": prop}
    rc, out = sh("git -C /repo status --porcelain")
    assert out.strip() == "", f"/repo is not clean: {out}"
    wt = tempfile.mkdtemp(prefix="seedcheck-", dir="/tmp")
    os.rmdir(wt)
    try:
        rc, out = sh(f"git -C /repo worktree add --detach {wt} HEAD -q")
        assert rc == 0, out
        env = dict(os.environ, PYTHONPATH=wt)
        rc0, out0 = sh(f"{PY} {demo}", cwd=wt, env=env)
        report["demo_without_patch_rc"] = rc0
        rca, outa = sh(f"git apply {patch}", cwd=wt)
        report["patch_applies"] = rca == 0
        if rca != 0:
            report["error"] = outa[-400:]
            print(json.dumps(report, indent=1))
            return 1
        rcs, outs = sh(f"{PY} -m pytest -q -p no:cacheprovider -x --timeout=900", cwd=wt, env=env)
        report["suite_with_patch"] = outs.strip().splitlines()[-1] if outs.strip() else ""
        report["suite_passes"] = rcs == 0
        rc1, out1 = sh(f"{PY} {demo}", cwd=wt, env=env)
        report["demo_with_patch_rc"] = rc1
        report["demo_with_patch_tail"] = out1.strip().splitlines()[-1][:200] if out1.strip() else ""
    finally:
        sh(f"git -C /repo worktree remove --force {wt}")
        shutil.rmtree(wt, ignore_errors=True)
    valid = report["demo_without_patch_rc"] == 0 and report["suite_passes"] and report["demo_with_patch_rc"] != 0
    report["valid"] = valid
    # run the checks against it
    caught = {}
    try:
        rc, out = sh(f"git -C /repo apply {patch}")
        assert rc == 0, out
        for p in PROPS:
            rc, out = sh(f"./check {p}", cwd=VERIF)
            lines = [ln.strip() for ln in out.splitlines() if "] " in ln and ln.strip().startswith("geoh5py/") or ln.startswith("ANALYSIS-ERROR")]
            viol = [ln for ln in out.splitlines() if ln.startswith("VIOLATION")]
            if rc != 0:
                caught[p] = {"rc": rc, "violations": len(viol), "findings": [ln[:260] for ln in lines if "KNOWN" not in ln][:6]}
    finally:
        sh("git -C /repo checkout -- .")
        rc, out = sh("git -C /repo status --porcelain")
        assert out.strip() == "", f"/repo not restored: {out}"
        # evidence files were rewritten by runs on the patched tree: regenerate on the clean tree
        for p in caught:
            sh(f"./check {p}", cwd=VERIF)
    report["caught_by"] = caught
    report["caught"] = bool(caught)
    print(json.dumps(report, indent=1))
    if keep and valid:
        dst = os.path.join(VERIF, "seeded", keep)
        os.makedirs(dst, exist_ok=True)
        shutil.copy(patch, os.path.join(dst, "patch.diff"))
        shutil.copy(demo, os.path.join(dst, "demo.py"))
        notes = os.path.join(cand, "notes.md")
        if os.path.exists(notes):
            shutil.copy(notes, os.path.join(dst, "notes.md"))
        meta = {
            "id": keep,
            "breaks_property": prop,
            "needs_to_manifest": "see notes.md",
            "verified": {
                "demo_passes_without_patch": report["demo_without_patch_rc"] == 0,
                "suite_passes_with_patch": report["suite_passes"],
                "suite_summary": report["suite_with_patch"],
                "demo_fails_with_patch": report["demo_with_patch_rc"] != 0,
                "how": "tools/seedcheck.py: scratch worktree under /tmp (removed), PYTHONPATH=<worktree>, pytest -x, then git -C /repo apply / ./check Cxx / git -C /repo checkout -- .",
            },
            "caught_by": {k: v["findings"] for k, v in caught.items()},
            "caught": bool(caught),
        }
        with open(os.path.join(dst, "meta.json"), "w") as fh:
            json.dump(meta, fh, indent=1)
    return 0


if __name__ == "__main__":
    sys.exit(main())
