#!/bin/sh
# every kept seed must still apply to /repo HEAD (re-base with `git apply -C1` in a scratch worktree when a fix: commit moved its context)
rc=0
for d in /verif/seeded/*/; do
  git -C /repo apply --check "$d/patch.diff" 2>/dev/null || { echo "DOES NOT APPLY: $d"; rc=1; }
done
exit $rc
