#!/venv/bin/python
"""Recompute, in memory, which property checks report each kept seed (overlay of the patch; nothing is written to /repo) and
update `caught_by` / `caught` in /verif/seeded/<id>/meta.json.   usage: tools/seeds_recheck.py [id-substring ...] [--props=C01,C02] [--dry]   (--dry: report only, do not touch meta.json)"""
import json, multiprocessing as mp, os, sys

V = os.path.dirname(os.path.dirname(os.path.abspath(__file__)))
sys.path.insert(0, V)
from sa.model import AnalysisError, Project  # noqa: E402
from sa.selftest import _finding_keys, apply_unified_diff  # noqa: E402

PROPS = [f"C{i:02d}" for i in range(1, 21)]
BASE = {}


def run(job):
    sid, prop, ov = job
    keys, err = _finding_keys(prop, ov)
    if keys is None:
        return sid, prop, ["ANALYSIS-ERROR " + (err or "")[:200]]
    new = [f"{v[3]}: [{v[0]}] {v[1]}.{v[2]}: {k.split('|')[-1][:160]}" for k, v in keys.items() if k not in BASE[prop]]
    return sid, prop, new


def main():
    args = [a for a in sys.argv[1:] if not a.startswith("--")]
    props = PROPS
    for a in sys.argv[1:]:
        if a.startswith("--props"):
            props = a.split("=", 1)[1].split(",") if "=" in a else sys.argv[sys.argv.index(a) + 1].split(",")
    project = Project()

    def read(rel):
        for m in project.modules.values():
            if m.relpath == rel:
                return m.source
        with open(os.path.join(project.repo, rel), encoding="utf-8", newline="") as fh:
            return fh.read()

    for p in props:
        b, err = _finding_keys(p, None)
        assert b is not None, err
        BASE[p] = set(b)
    jobs, metas = [], {}
    for sid in sorted(os.listdir(os.path.join(V, "seeded"))):
        if args and not any(a in sid for a in args if not a.startswith("C") or True) :
            continue
        d = os.path.join(V, "seeded", sid)
        if json.load(open(os.path.join(d, "meta.json"))).get("obsolete"):
            print(sid, "OBSOLETE (a later repair made the change harmless; not counted)")
            continue
        try:
            ov = apply_unified_diff(open(os.path.join(d, "patch.diff")).read(), read)
        except AnalysisError:
            print(sid, "DOES NOT APPLY")
            continue
        metas[sid] = json.load(open(os.path.join(d, "meta.json")))
        for p in props:
            jobs.append((sid, p, ov))
    with mp.get_context("fork").Pool(16) as pool:
        res = pool.map(run, jobs, chunksize=2)
    got: dict = {}
    for sid, p, new in res:
        if new:
            got.setdefault(sid, {})[p] = new[:6]
    ncaught = 0
    for sid, meta in metas.items():
        cb = dict(meta.get("caught_by") or {})
        for p in props:
            cb.pop(p, None)
        cb.update(got.get(sid, {}))
        meta["caught_by"], meta["caught"] = cb, bool(cb)
        if "--dry" not in sys.argv:
            json.dump(meta, open(os.path.join(V, "seeded", sid, "meta.json"), "w"), indent=1)
        ncaught += bool(cb)
        print(f"{sid}: {'caught by ' + ','.join(sorted(cb)) if cb else 'MISSED'}")
    print(f"== {ncaught}/{len(metas)} seeds reported by at least one check")


if __name__ == "__main__":
    main()
