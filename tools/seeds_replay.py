#!/venv/bin/python
"""Apply every kept seed to /repo (git apply), run the checks recorded as catching it, restore (git checkout -- .).
Prints one line per seed; exit 1 if a seed recorded as caught is no longer reported."""
import json, os, subprocess, sys
V = os.path.dirname(os.path.dirname(os.path.abspath(__file__)))
def sh(c, cwd=None):
    r = subprocess.run(c, shell=True, cwd=cwd, capture_output=True, text=True)
    return r.returncode, r.stdout + r.stderr
assert sh("git -C /repo status --porcelain")[1].strip() == "", "/repo not clean"
rc = 0
touched = set()
for sid in sorted(os.listdir(os.path.join(V, "seeded"))):
    d = os.path.join(V, "seeded", sid)
    meta = json.load(open(os.path.join(d, "meta.json")))
    props = sorted(meta.get("caught_by") or {})
    if meta.get("obsolete"):
        print(f"{sid}: obsolete since {meta['obsolete'].get('since')}")
        continue
    if not props:
        print(f"{sid}: recorded as NOT caught (honest miss)")
        continue
    try:
        c, out = sh(f"git -C /repo apply {d}/patch.diff")
        if c != 0:
            print(f"{sid}: DOES NOT APPLY"); rc = 1; continue
        res = {}
        for p in props:
            c, out = sh(f"./check {p}", cwd=V)
            touched.add(p)
            res[p] = (c, sum(1 for ln in out.splitlines() if ln.startswith("VIOLATION")))
    finally:
        sh("git -C /repo checkout -- .")
    ok = any(c == 1 and n > 0 for c, n in res.values())
    print(f"{sid}: {'caught' if ok else 'MISSED'} " + " ".join(f"{p}:rc={c},violations={n}" for p, (c, n) in res.items()))
    if not ok:
        rc = 1
for p in sorted(touched):
    sh(f"./check {p}", cwd=V)
assert sh("git -C /repo status --porcelain")[1].strip() == ""
sys.exit(rc)
