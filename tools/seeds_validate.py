#!/venv/bin/python
"""Re-validate every kept seed against /repo HEAD, in parallel scratch worktrees under /tmp (removed afterwards): the demo passes on
the clean tree, the patch applies, the unedited suite passes with it, the demo fails with it.  usage: tools/seeds_validate.py [id-substring ...]"""
import multiprocessing as mp, os, sys

V = os.path.dirname(os.path.dirname(os.path.abspath(__file__)))
sys.path.insert(0, os.path.join(V, "tools"))
from seed_import import validate  # noqa: E402


def main():
    filt = sys.argv[1:]
    jobs = [(sid.split("-")[0], sid, os.path.join(V, "seeded", sid)) for sid in sorted(os.listdir(os.path.join(V, "seeded")))
            if (not filt or any(f in sid for f in filt)) and not __import__("json").load(open(os.path.join(V, "seeded", sid, "meta.json"))).get("obsolete")]
    with mp.get_context("fork").Pool(8) as pool:
        reps = pool.map(validate, jobs, chunksize=1)
    bad = 0
    for r in reps:
        if not r.get("valid"):
            bad += 1
            print(r["k"], "INVALID", {k: v for k, v in r.items() if k not in ("prop", "k", "cand")})
    print(f"== {len(reps) - bad}/{len(reps)} seeds valid against /repo HEAD")
    return 1 if bad else 0


if __name__ == "__main__":
    sys.exit(main())
